#!/venv/bin/python
"""Entry point for every check.

  run_check.py <ID> [--tier quick|thorough] [--replay FILE] [--jobs N]

exit 0: property held on everything explored (known findings are printed as KNOWN-FINDING lines)
exit 1: at least one violation not listed in known_findings.json; prints VIOLATION lines
exit 3: inconclusive (watchdog, monitor floors not reached, import guard failed); prints INCONCLUSIVE
"""
from __future__ import annotations

import argparse
import concurrent.futures
import importlib
import json
import os
import subprocess
import sys
import threading
import time

HERE = os.path.dirname(os.path.abspath(__file__))
sys.path.insert(0, HERE)
sys.dont_write_bytecode = True

from vlib import common  # noqa: E402

DEFAULT_SEED = 20260924
WORK = os.path.join(HERE, ".work")


def load_check(pid: str):
    return importlib.import_module("vlib.checks.%s" % pid.lower())


def worker_main(pid: str) -> int:
    spec = json.load(sys.stdin)
    out_path = spec.pop("__out__")
    common.import_guard()
    mod = load_check(pid)
    t0 = time.monotonic()
    try:
        if spec.get("__replay__") is not None:
            res = mod.replay(spec["__replay__"])
        elif spec.get("__witnesses__"):
            res = mod.witnesses(spec)
        else:
            res = mod.run_shard(spec)
        data = res.to_json()
        for v in data.get("violations", []):
            v["hashseed"] = int(os.environ.get("PYTHONHASHSEED", "0") or 0)
    except common.Inconclusive as e:
        data = common.Result().to_json()
        data["inconclusive"].append("worker: %s" % e)
    data["wall_s"] = time.monotonic() - t0
    with open(out_path, "w") as f:
        json.dump(data, f)
    return 0


def run_specs(pid: str, specs, jobs: int, timeout_s: float):
    os.makedirs(WORK, exist_ok=True)
    env = dict(os.environ)
    env["PYTHONHASHSEED"] = "0"
    env["PYTHONDONTWRITEBYTECODE"] = "1"
    env[common.GUARD_ENV] = "1"
    results, problems = [], []
    # development aid for tools/mutsweep.py: stop starting shards once one has reported a violation that is not a known
    # finding.  Never set by the registered commands.
    failfast = os.environ.get("VERIF_FAILFAST") == "1"
    stop = threading.Event()
    known = load_known(pid) if failfast else []

    def one(i_spec):
        i, spec = i_spec
        if stop.is_set():
            return None, None
        out_path = os.path.join(WORK, "%s_%d_%d.json" % (pid, os.getpid(), i))
        spec = dict(spec)
        spec["__out__"] = out_path
        wenv = dict(env)
        # the library iterates over sets of records and listeners; the string-hash seed decides those orders. Shards run
        # under different (recorded) hash seeds so that more than one such order is explored; replays reuse the seed.
        wenv["PYTHONHASHSEED"] = str(spec.get("__hashseed__", 0))
        try:
            p = subprocess.run(
                [sys.executable, os.path.join(HERE, "run_check.py"), pid, "--worker"],
                input=json.dumps(spec).encode(), stdout=subprocess.PIPE, stderr=subprocess.PIPE,
                timeout=timeout_s, env=wenv, cwd=HERE,
            )
        except subprocess.TimeoutExpired:
            return None, "shard %d: watchdog after %.0fs" % (i, timeout_s)
        if p.returncode != 0 or not os.path.exists(out_path):
            return None, "shard %d: worker exit %s: %s" % (i, p.returncode, p.stderr.decode(errors="replace")[-1500:])
        try:
            with open(out_path) as f:
                data = json.load(f)
        finally:
            os.unlink(out_path)
        if failfast and any(not any(matches(k, v["sig"]) for k in known) for v in data.get("violations", [])):
            stop.set()
        return data, None

    with concurrent.futures.ThreadPoolExecutor(max_workers=jobs) as ex:
        for data, prob in ex.map(one, list(enumerate(specs))):
            if data is not None:
                results.append(data)
            if prob:
                problems.append(prob)
    return results, problems


def load_known(pid: str):
    path = os.path.join(HERE, "known_findings.json")
    if not os.path.exists(path):
        return []
    with open(path) as f:
        data = json.load(f)
    return [k for k in data.get("findings", []) if k.get("property") == pid]


def matches(finding, sig) -> bool:
    for k, v in finding.get("match", {}).items():
        if sig.get(k) != v:
            return False
    return True


HASHSEEDS = {"quick": 4, "thorough": 16}      # number of distinct PYTHONHASHSEED values spread over the shards


def main() -> int:
    ap = argparse.ArgumentParser()
    ap.add_argument("pid")
    ap.add_argument("--tier", default=os.environ.get("VERIF_TIER", "quick"), choices=["quick", "thorough"])
    ap.add_argument("--replay")
    ap.add_argument("--worker", action="store_true")
    ap.add_argument("--jobs", type=int, default=int(os.environ.get("VERIF_JOBS", "0")) or min(16, os.cpu_count() or 4))
    ap.add_argument("--no-evidence", action="store_true")
    args = ap.parse_args()
    pid = args.pid.upper()
    if args.worker:
        return worker_main(pid)

    seed = int(os.environ.get("VERIF_SEED", DEFAULT_SEED))
    t0 = time.monotonic()
    inconclusive = []
    try:
        common.import_guard()
    except common.Inconclusive as e:
        print("INCONCLUSIVE property=%s %s" % (pid, e))
        return 3
    mod = load_check(pid)

    if args.replay:
        with open(args.replay) as f:
            blob = json.load(f)
        specs = [{"__replay__": blob.get("replay", blob), "__hashseed__": int(blob.get("hashseed", 0))}]
        timeout_s = 600
    else:
        specs = mod.plan(args.tier, seed)
        n_hash = HASHSEEDS[args.tier]
        for i, sp in enumerate(specs):
            sp["__hashseed__"] = (i + seed) % n_hash
        timeout_s = getattr(mod, "SHARD_TIMEOUT", {"quick": 900, "thorough": 3000})[args.tier]
        known_all = load_known(pid)
        if hasattr(mod, "witnesses"):
            # stored witnesses of known findings (KNOWN-FINDING line printed deterministically) and of findings repaired since
            # (regression scenarios: they must stay silent)
            specs.append({"__witnesses__": True, "findings": known_all, "seed": seed})
    results, problems = run_specs(pid, specs, args.jobs, timeout_s)
    inconclusive.extend(problems)
    merged = common.merge_results(results)
    inconclusive.extend(merged["inconclusive"])

    # floors: every deciding monitor must have been evaluated
    floors = mod.floors(args.tier) if hasattr(mod, "floors") else {}
    if not args.replay:
        for name, floor in floors.items():
            if merged["monitors"].get(name, 0) < floor:
                inconclusive.append("monitor %s evaluated %d times (< floor %d)" % (name, merged["monitors"].get(name, 0), floor))

    # classify violations
    known = load_known(pid)
    new_violations, known_hits = [], {}
    for v in merged["violations"]:
        hit = None
        for k in known:
            if matches(k, v["sig"]):
                hit = k
                break
        if hit is None:
            new_violations.append(v)
        else:
            known_hits.setdefault(hit["id"], {"finding": hit, "count": 0, "example": v})
            known_hits[hit["id"]]["count"] += 1

    os.makedirs(os.path.join(HERE, "replays"), exist_ok=True)
    if not args.replay:
        import glob
        for old in glob.glob(os.path.join(HERE, "replays", "%s_%s_*.json" % (pid, args.tier))):
            os.unlink(old)
    replay_paths = []
    for i, v in enumerate(new_violations[:20]):
        path = os.path.join(HERE, "replays", "%s_%s_%d.json" % (pid, args.tier, i))
        with open(path, "w") as f:
            json.dump({"property": pid, "seed": seed, "tier": args.tier, "hashseed": v.get("hashseed", 0), "sig": v["sig"], "detail": v["detail"],
                       "replay": v["replay"]}, f, indent=1)
        replay_paths.append(path)

    wall = time.monotonic() - t0
    distinct = len([k for k, c in merged["classes"].items() if c > 0])
    status = "violated" if new_violations else ("inconclusive" if inconclusive else "held")

    if not args.no_evidence and not args.replay:
        top_classes = dict(sorted(merged["classes"].items(), key=lambda kv: -kv[1])[:60])
        evidence = {
            "property_id": pid,
            "tier": args.tier,
            "seed": seed,
            "level": getattr(mod, "LEVEL", "exploration"),
            "coverage": {
                "evaluations": merged["evaluations"],
                "distinct_nontrivial": distinct,
                "rule": mod.RULE,
                "samples": merged["samples"] or ["(none)"],
                "monitor_evaluations": merged["monitors"],
                "monitor_floors": floors,
                "coverage_classes_hit": distinct,
                "coverage_class_histogram_top60": top_classes,
                "observations": merged["observations"],
                "extra": merged["extra"],
                "exhaustive": bool(getattr(mod, "EXHAUSTIVE", {}).get(args.tier, False)),
                "verdict": status,
                "inconclusive_reasons": inconclusive,
                "known_findings_observed": {fid: h["count"] for fid, h in known_hits.items()},
                "shards": len(specs),
                "string_hash_seeds_used": sorted({sp.get("__hashseed__", 0) for sp in specs}),
            },
            "assumptions": list(getattr(mod, "ASSUMPTIONS", [])),
            "wall_s": round(wall, 2),
            "violations": len(new_violations),
        }
        os.makedirs(os.path.join(HERE, "evidence"), exist_ok=True)
        with open(os.path.join(HERE, "evidence", "%s.json" % pid), "w") as f:
            json.dump(evidence, f, indent=1, sort_keys=True)

    print("property=%s tier=%s seed=%d evaluations=%d classes=%d wall=%.1fs" % (
        pid, args.tier, seed, merged["evaluations"], distinct, wall))
    for name in sorted(merged["monitors"]):
        print("  monitor %-40s evaluations=%d" % (name, merged["monitors"][name]))
    for k, c in sorted(merged["observations"].items()):
        print("  observation %s x%d" % (k, c))
    for fid, h in known_hits.items():
        print("KNOWN-FINDING: property=%s %s [%s, observed %d time(s)]" % (pid, h["finding"]["what"], fid, h["count"]))
    for k in known:
        if k["id"] not in known_hits and not args.replay:
            print("NOTE known finding %s not observed in this run" % k["id"])
    if new_violations:
        print("  violating cases: %d (first %d written as replay files)" % (len(new_violations), len(replay_paths)))
        for v, path in zip(new_violations, replay_paths):
            print("  violated monitor=%s kind=%s: %s" % (v["sig"].get("monitor"), v["sig"].get("kind"), v["detail"][:300].replace("\n", " ")))
            print("VIOLATION property=%s replay=%s" % (pid, path))
        return 1
    if inconclusive:
        for r in inconclusive[:10]:
            print("INCONCLUSIVE property=%s %s" % (pid, r))
        return 3
    print("HELD property=%s on everything explored" % pid)
    return 0


if __name__ == "__main__":
    sys.exit(main())
