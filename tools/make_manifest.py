#!/usr/bin/env python3
"""Regenerates MANIFEST.json from the table below (single source of truth for the manifest)."""
import json
import os
import sys

HERE = os.path.dirname(os.path.dirname(os.path.abspath(__file__)))
PY = "/venv/bin/python"

CHECKS = {
    # id: (level, technique, level_text, level_note, design_ref)
    "C01": ("exploration", "runtime monitoring: round-trip oracle with independent RFC 1035 decoder over generated messages",
            "Real DNSOutgoing output for generated and boundary-swept messages is decoded by DNSIncoming and by an independent strict parser; every entry must come back unchanged, per section, in order. Held-on-executions evidence, not proof.",
            "Trusts vlib/wire.py (independent parser) and the generators' claim to stay inside the quantifier.", "2/C01"),
    "C14": ("exploration", "runtime monitoring: size/flag/accounting invariants checked on every emitted datagram with an independent parser",
            "Every datagram produced for generated messages (0..300 entries/section, oversize entries, limit sweep) is checked for size limits, header counts vs content, TC/id rules and exactly-once accounting. Thorough tier additionally runs the repository's own 295-test suite under the invariant part of this property (vlib/suite_monitors.py, wrappers installed from outside).",
            "Trusts vlib/wire.py for counting entries.", "2/C14"),
    "C02": ("exploration", "runtime monitoring: totality/step-budget/faithfulness monitors on the real decoder (sys.setprofile call+depth metering, independent strict parser as oracle)",
            "Random, mutated, grammar-generated adversarial and bounded-exhaustive byte strings are decoded by the real DNSIncoming under a call/depth meter; any exception, budget overrun, over-long name or disagreement with the independent strict parser is a violation. Thorough tier additionally runs the repository's own 295-test suite under the invariant part of this property (vlib/suite_monitors.py, wrappers installed from outside).",
            "Work is measured in Python calls/stack depth (budget constants in vlib/checks/c02.py); trusts vlib/wire.py as the strict parser.", "2/C02"),
    "C19": ("exploration", "runtime monitoring: differential oracle (independent RFC 6763 name recogniser and TXT parser) over grammar-generated, mutated and bounded-exhaustive inputs",
            "service_type_name is compared with an independent recogniser of the documented rules on valid names, every rule violated singly/in pairs, bounded-exhaustive stems and random strings in both strict modes; TXT dictionaries are encoded by ServiceInfo and decoded by the library, an independent parser and via the wire codec.",
            "Names with an empty label inside the instance part are treated as unspecified (exception type still checked).", "2/C19"),
    "C20": ("exploration", "runtime monitoring: exhaustive pairwise identity oracle over a bounded vocabulary (canonical-key model vs ==, hash, set/DNSRRSet/DNSCache behaviour)",
            "All ordered pairs of ~3000 record/question objects (thorough) are compared against an independent canonical key: equality, hash congruence, symmetry and membership behaviour in set, DNSRRSet and DNSCache. Thorough tier additionally runs the repository's own 295-test suite under the invariant part of this property (vlib/suite_monitors.py, wrappers installed from outside).",
            "Vocabulary is bounded; identity code has no size-dependent branches.", "2/C20"),
    "C05": ("exploration", "runtime monitoring: reference-model oracle (RFC 6762 s.10 dict model) over every public lookup path after each step of generated histories; structural invariant at quiescent points",
            "Real RecordManager/DNSCache/engine purge are driven by generated and bounded-exhaustive histories under a virtual clock; after every step all lookup paths must agree with each other and with the model, purges must report exactly the model's expired set. Thorough tier additionally runs the repository's own 295-test suite under the invariant part of this property (vlib/suite_monitors.py, wrappers installed from outside).",
            "Model semantics for a record repeated in one datagram: last one wins. Virtual clock is exact.", "2/C05"),
    "C06": ("exploration", "runtime monitoring: listener-contract oracle with cache snapshots taken inside the real callbacks, under listener churn",
            "Spy RecordUpdateListeners record call order/arguments and snapshot the cache through public lookups inside each callback; compared with the model's expected (new, previous) list, mid state and final state for every datagram of generated histories.",
            "Only listeners registered at datagram start and not removed during it are constrained.", "2/C06"),
    "C03": ("exploration", "runtime monitoring: reference-model oracle (ResponderModel) over the real QueryHandler results and over replies captured on the simulated wire, across register/update/unregister histories",
            "For every registry state reached by random register/update/unregister sequences, all 1-question queries over registered/re-cased/unregistered names x 8 types, multi-question queries and known-answer boundary lists are answered by the real QueryHandler (and a sample through the simulated network) and compared with the model: exact answer set, TTLs, allowed additionals, no repeated records.",
            "ResponderModel in vlib/models.py is the oracle; NSEC owner compared per service; ANY-on-host and NSEC known answers soundness only.", "2/C03"),
    "C04": ("exploration", "runtime monitoring: online trace checker on ServiceListener callbacks ((A R)* A? per instance) plus live-set == cache invariant at quiescent points, in the virtual-time simulator",
            "Generated histories of injected responses and clock advances (real purge timer) against real AsyncServiceBrowsers; callbacks are checked online for alternation, for agreement with the cached PTR set at every quiescent point, and for visibility of the triggering datagram's records inside add_service.",
            "Browsed types are unrelated and no case-variants share a datagram; owner names are spelled as browsed, except that one history in eight also carries pointers owned by a subtype of the browsed type (known finding F44 is reported there); browsers are also started over expired, unpurged pointers; blocking ServiceBrowser runs in real time.", "2/C04"),
    "C08": ("exploration", "runtime monitoring: offline trace checker over the simulated wire (goodbye completeness, 'never after' resurrection rule) across injected-query schedules around the unregister instant",
            "Queries are injected on a grid of offsets around unregister/close so that answers sit in the immediate, aggregation or protected queue; the host's wire trace is decoded by the independent parser and checked for exactly three complete goodbyes and for no positive-TTL copy of a withdrawn record afterwards (5 s observation).",
            "Unregister issued after the registration's announcement task finished; address/NSEC records are only in scope when the host name is not shared with a remaining service.", "2/C08"),
    "C09": ("exploration", "runtime monitoring: offline trace checker of probe/announce timing and format in virtual time, with conflicts injected on a grid around the probe instants and a real second instance defending the name",
            "Probe count/spacing/format, no multicast of the service before the last probe, three complete announcements with correct flush bits and TTLs, conflict => exception or first free -N name re-probed, conflicting name never sent, registry index invariant.",
            "Conflicts arriving within 1 ms of the last probe instant may go either way.", "2/C09"),
    "C10": ("exploration", "runtime monitoring: offline checker over query timestamps on the simulated wire against a scheduler model (start-up schedule, spacing, justified-query and bounded-liveness windows) in virtual time",
            "PTR records of various TTLs learned in any order (incl. shorter-lived after longer-lived), refreshed/re-cased/withdrawn/left to expire; every query of the host is checked for schedule, spacing and justification, and every record that expires must have had its 75 % and rescue queries.",
            "Lateness bound 2 x delay (churn-avoidance + spacing), earliness bound delay; 'eventually' restated as bounded windows in virtual time.", "2/C10"),
    "C11": ("exploration", "runtime monitoring: offline checker of every reply on the simulated wire against a routing model (unicast vs multicast per record, destination, sending socket, id/question echo, flush bits), with the record's last sighting read from the host's cache at arrival",
            "Well-spaced injected queries (QU/QM mixes, probes, legacy and mDNS source ports, v4/v6, multicast or unicast delivery, both socket layouts) at arrival times around one quarter of a record's TTL since its last multicast; the exact unicast and multicast answer sets and all format rules are checked on the decoded datagrams.",
            "Queries are spaced so replies are attributable; dual-stack listen sockets are modelled with IPv4-mapped source addresses.", "2/C11"),
    "C12": ("exploration", "runtime monitoring: offline obligation/justification checker over send timestamps in virtual time (every owed record served in its window; every multicast answer justified by a window), sightings read from the real cache around each arrival",
            "Schedules of 1..6 QM queries, probes and truncated trains with gaps on the stated grid under the library's own seeded jitter and 0/1/50 ms loop-back delay; obligations by class (immediate / aggregated 20..500 ms / protected >= sighting+1 s and <= +1.2 s / TC hold 400..500 ms) are checked both ways, plus no duplicate record in one datagram.",
            "TTL >= 10 s; trains whose next packet lands inside the 400..500 ms timer window are not judged (counted); 1 ms slack.", "2/C12"),
    "C13": ("exploration", "runtime monitoring: offline checker of every query on the simulated wire against a cache model (known answers = non-stale records with remaining TTL, TC split) and a duplicate-question-suppression model evaluated at the observed send instants",
            "Browser queries with 0..300 cached PTRs whose half-life instants straddle the start-up query instants; pairs of askers (two browsers, browser + external QM/QU query with/without authority, subset/equal/superset known answers) at gaps around 0/998/999/1000/1001 ms; service-info lookups with partial caches, forced question types and timeouts 200 ms..10 s.",
            "Cases where two askers act in the same virtual instant or a history entry is exactly 999 ms old are not judged (counted as observations).", "2/C13"),
    "C15": ("exploration", "runtime monitoring: hostile datagram streams against a live instance with an event-loop exception monitor, state-unchanged assertion for oversized datagrams and two liveness canaries (query answered, announcement delivered)",
            "Streams of 20..400 random, mutated, adversarially compressed, invalid-UTF-8, oversized and valid datagrams from mDNS and legacy ports (multicast and unicast delivery, both layouts) interleaved with clock advances hit a host with registered services, a browser and lookups in progress; any exception reaching datagram_received's caller or the loop exception handler is a violation; canaries afterwards prove the instance still works.",
            "Canary names are unique per run.", "2/C15"),
    "C16": ("exploration", "runtime monitoring: metamorphic differential monitor - the same history executed without duplicates, with every non-QU datagram duplicated, and with every datagram duplicated, under identical seeds; wire traces and per-listener callback logs compared event by event",
            "Traffic histories of queries of every kind and responses with new/refreshed/goodbye/flush records are replayed three times in virtual time; the run duplicating only datagrams without a QU question must be identical to the reference; the fully duplicated run may only add unicast replies emitted while a QU copy is processed. First divergence is classified and attributed (non_qu_duplicate vs qu_copy_processed).",
            "Duplicates are delivered in the same loop callback as the original; RNG draws during the copy come from a side stream. One known finding (F8) is listed in known_findings.json.", "2/C16"),
    "C17": ("exploration", "runtime monitoring: 'nothing after close' trace/callback/exception monitors in the virtual-time simulator with close requested on a grid of offsets relative to in-flight activities, plus real-time runs of the threaded API",
            "Close is requested while registrations, queued answers, TC holds, browser timers, lookups and the purge are in flight; the wire (including send attempts on dead transports), all spy callbacks and the loop exception handler are watched for two more virtual hours with further traffic; goodbyes before close returns; second close is a no-op; real-time runs cover Zeroconf()/ServiceBrowser threads with close() from another thread.",
            "Armed-but-silent timers are allowed; thread runs use wall-clock waits with a watchdog that yields INCONCLUSIVE.", "2/C17"),
    "C18": ("exploration", "runtime monitoring: read-instant hook (harness wrapper on ServiceInfo._process_record_threadsafe) + replay model of unexpired reads, deadline/transmission monitors in virtual time",
            "Lookups are started against cache states from {SRV,TXT,A,AAAA} x {absent,fresh,stale,expired-unpurged} with missing records arriving on a grid of offsets up to and past the deadline; return time, success criterion, the reported fields (replayed from exactly the records handed to the object, skipping expired ones), cache-only path without transmissions and QU-then-QM progression are checked.",
            "The read instant is observed by a wrapper installed from the harness; a flush-bit record legitimately re-stamps other cached records for one second.", "2/C18"),
    "C07": ("fault_enumeration", "runtime monitoring with single-loss fault enumeration: multi-host scenarios of real instances in the virtual-time simulator, re-run once per dropped datagram under identical seeds; bounded-settling oracle on browser live sets and lookups started from Added callbacks",
            "Each scenario (2..5 real instances, registrations/updates/unregistrations/closes at arbitrary times, browsers started before/during/after, 0..100 ms per-receiver jitter, 0..20 % duplication) is run loss-free and then once per chosen datagram with that datagram dropped for all or one receiver (quick: stratified sample per datagram class; thorough: every datagram). 15 s after the last operation every browser must report exactly the registered instances and lookups from Added callbacks must have resolved advertised data. A second family puts a multi-homed IPv6 responder on two simulated links (one sender socket per interface, multicast routed by destination scope id as the kernel does) with a browser host on each link; both must converge.",
            "'Eventually' is restated as 15 virtual seconds after the last scripted operation; exactly one loss per run; lookup fields may come from different advertised versions of an updated service; an empty TXT is accepted only when the TXT record's TTL may have run out.", "2/C07"),
}

NOT_YET = {}


def main():
    props = [json.loads(l) for l in open(os.path.join(HERE, "properties.jsonl"))]
    checks = []
    na = []
    for p in props:
        pid = p["id"]
        if pid in CHECKS:
            level, technique, text, note, ref = CHECKS[pid]
            checks.append({
                "property_id": pid,
                "quick_cmd": "%s run_check.py %s --tier quick" % (PY, pid),
                "thorough_cmd": "%s run_check.py %s --tier thorough" % (PY, pid),
                "evidence_file": "evidence/%s.json" % pid,
                "replay_cmd_template": "%s run_check.py %s --replay {path}" % (PY, pid),
                "engine": "run_check",
                "level_claimed": {"category": level, "text": text, "design_ref": "DESIGN.md section " + ref},
                "level_note": note,
                "technique": technique,
            })
        else:
            na.append({"property_id": pid, "reason": NOT_YET.get(pid, "check not built yet in this session (runtime monitoring applies; see DESIGN.md section 2)")})
    manifest = {
        "version": 1,
        "setup_cmd": "%s tools/setup_check.py" % PY,
        "hooks": {
            "guard": "ZEROCONF_VERIF",
            "enable": "No source hooks are needed: monitors are installed from the harness by wrapping module attributes at run time; checks set ZEROCONF_VERIF=1 and import zeroconf from /repo/src.",
            "baseline_off_cmd": "cd /repo && /venv/bin/python -m pytest -ra -q -p no:cacheprovider --timeout=900 --continue-on-collection-errors --junitxml=/tmp/verif_baseline_junit.xml",
            "source_commits": [],
            "add_only": True,
        },
        "engines": [{"name": "run_check", "path": "run_check.py", "serves_properties": sorted(CHECKS),
                     "kind_free_text": "runtime monitoring: real code under generated/hostile workloads in a virtual-time network simulator, with reference-model oracles, invariant wrappers and differential monitors"}],
        "checks": checks,
        "notes": "All checks: exit 0 held / exit 1 VIOLATION / exit 3 INCONCLUSIVE. Known findings in known_findings.json. VERIF_SEED and VERIF_TIER honoured.",
        "not_applicable": na,
    }
    with open(os.path.join(HERE, "MANIFEST.json"), "w") as f:
        json.dump(manifest, f, indent=1)
    print("wrote MANIFEST.json with %d checks, %d not_applicable" % (len(checks), len(na)))


if __name__ == "__main__":
    main()
