#!/bin/bash
# Sweep every quick (or $TIER) check over several VERIF_SEED values; prints one line per (check, seed) that is not HELD.
# usage: tools/seedsweep.sh "1 2 3" [IDs...]
SEEDS=${1:-"1 2 3"}; shift
IDS=${@:-C01 C02 C03 C04 C05 C06 C07 C08 C09 C10 C11 C12 C13 C14 C15 C16 C17 C18 C19 C20}
cd "$(dirname "$0")/.."
for sd in $SEEDS; do for p in $IDS; do
  out=$(VERIF_SEED=$sd /venv/bin/python run_check.py $p --tier ${TIER:-quick} --no-evidence --jobs ${JOBS:-4} 2>&1)
  rc=$?
  if [ $rc -ne 0 ]; then echo "seed=$sd $p exit=$rc"; echo "$out" | grep -E "^(  violated|INCONCLUSIVE)" | head -3 | cut -c1-400; fi
done; done; echo SWEEPDONE
