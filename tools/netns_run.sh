#!/bin/sh
# Run a command inside a private network namespace that mimics the sandbox host (lo + eth0 192.0.2.2/24, fd00::2/64),
# so that several pytest runs of the repository's suite (real multicast sockets on port 5353) do not disturb each other.
exec unshare -rn sh -c '
ip link set lo up
ip link add eth0 type veth peer name eth1
ip link set eth0 multicast on
ip addr add 192.0.2.2/24 dev eth0
ip -6 addr add fd00::2/64 dev eth0 nodad
ip link set eth1 up
ip link set eth0 up
ip route add default via 192.0.2.1
ip -6 route add default via fd00::1 dev eth0 2>/dev/null
sleep 1
exec "$@"' sh "$@"
