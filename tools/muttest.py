#!/usr/bin/env python3
"""Apply one textual mutation to a scratch copy of /repo and run checks against it (monitor validation).
usage: muttest.py <relpath> <old> <new> <ID> [<ID>...]      (scratch copy under /tmp, removed afterwards)"""
import os
import shutil
import subprocess
import sys
import tempfile

rel, old, new, ids = sys.argv[1], sys.argv[2], sys.argv[3], sys.argv[4:]
tmp = tempfile.mkdtemp(prefix="mut_", dir="/tmp")
try:
    shutil.copytree("/repo/src", os.path.join(tmp, "src"))
    p = os.path.join(tmp, "src", "zeroconf", rel)
    s = open(p).read()
    if s.count(old) < 1:
        print("MUTATION NOT APPLICABLE: pattern not found")
        sys.exit(2)
    open(p, "w").write(s.replace(old, new, 1))
    env = dict(os.environ, VERIF_REPO=tmp)
    for pid in ids:
        r = subprocess.run(["/venv/bin/python", "/verif/run_check.py", pid, "--tier", os.environ.get("TIER", "quick"), "--no-evidence"],
                           env=env, stdout=subprocess.PIPE, stderr=subprocess.STDOUT, cwd="/verif")
        out = r.stdout.decode()
        viol = [l for l in out.splitlines() if l.strip().startswith("violated")]
        print("%s exit=%d %s" % (pid, r.returncode, ("CAUGHT: " + viol[0][:220]) if r.returncode == 1 else ("MISSED" if r.returncode == 0 else out[-400:])))
finally:
    shutil.rmtree(tmp, ignore_errors=True)
