#!/usr/bin/env python3
"""Evaluate a seeded breaking change against the checks.
usage: seedeval.py <patch.diff> <ID> [<ID>...]     env TIER=quick|thorough
The patch is applied to a scratch copy of /repo/src (checks run with VERIF_REPO pointing there); /repo is not touched."""
import os
import shutil
import subprocess
import sys
import tempfile

patch, ids = os.path.abspath(sys.argv[1]), sys.argv[2:]
tmp = tempfile.mkdtemp(prefix="seed_", dir="/tmp")
try:
    shutil.copytree("/repo/src", os.path.join(tmp, "src"))
    r = subprocess.run(["patch", "-p1", "-s", "-i", patch], cwd=tmp, stdout=subprocess.PIPE, stderr=subprocess.STDOUT)
    if r.returncode != 0:
        print("PATCH DOES NOT APPLY:", r.stdout.decode()[-500:])
        sys.exit(2)
    env = dict(os.environ, VERIF_REPO=tmp)
    for pid in ids:
        r = subprocess.run(["/venv/bin/python", "/verif/run_check.py", pid, "--tier", os.environ.get("TIER", "quick"), "--no-evidence"],
                           env=env, stdout=subprocess.PIPE, stderr=subprocess.STDOUT, cwd="/verif")
        out = r.stdout.decode()
        viol = [l.strip() for l in out.splitlines() if l.strip().startswith("violated")]
        kinds = sorted({v.split(":")[0] for v in viol})
        print("%s exit=%d %s" % (pid, r.returncode, ("CAUGHT " + "; ".join(kinds)[:300] + " | " + viol[0][:260]) if r.returncode == 1 else ("MISSED" if r.returncode == 0 else "INCONCLUSIVE " + out[-300:])))
finally:
    shutil.rmtree(tmp, ignore_errors=True)
