#!/usr/bin/env python3
"""Store a confirmed seeded change: seedstore.py <ID> <worktree> <needs> <caught_by_json> [note]
env ROUND=2 stores under seeded/<ID>-2 and reads the verification output from /tmp/verify2_<ID>.txt"""
import json
import os
import shutil
import subprocess
import sys

pid, wt, needs, caught = sys.argv[1], sys.argv[2], sys.argv[3], json.loads(sys.argv[4])
note = sys.argv[5] if len(sys.argv) > 5 else ""
rnd = os.environ.get("ROUND", "1")
dst = os.path.join("/verif/seeded", pid if rnd == "1" else "%s-%s" % (pid, rnd))
os.makedirs(dst, exist_ok=True)
shutil.copy(os.path.join(wt, "patch.diff"), os.path.join(dst, "patch.diff"))
shutil.copy(os.path.join(wt, "demo_%s.py" % pid), os.path.join(dst, "demo_%s.py" % pid))
if os.path.exists(os.path.join(wt, "orig_issue_%s.py" % pid)):
    shutil.copy(os.path.join(wt, "orig_issue_%s.py" % pid), os.path.join(dst, "orig_issue_%s.py" % pid))
if os.path.exists(os.path.join(wt, "notes.txt")):
    shutil.copy(os.path.join(wt, "notes.txt"), os.path.join(dst, "agent_notes.txt"))
vf = "/tmp/seedverify_%s.out" % pid if rnd == "1" else "/tmp/verify%s_%s.txt" % (rnd, pid)
ver = open(vf).read().strip().splitlines() if os.path.exists(vf) else []
files = subprocess.run(["grep", "-E", r"^\+\+\+ ", os.path.join(dst, "patch.diff")], stdout=subprocess.PIPE).stdout.decode().split()
meta = {
    "property": pid,
    "round": int(rnd),
    "source": "independent sub-agent given only the property text and its own scratch worktree of /repo (HEAD with the fix: commits)",
    "files_changed": [f[2:] for f in files if f.startswith("b/")],
    "needs_to_manifest": needs,
    "confirmed_by_me": {
        "how": "tools/seedverify.sh: fresh worktree of /repo HEAD; demo on original; git apply patch.diff; demo with change; full pytest suite with change inside a private network namespace (tools/netns_run.sh)",
        "results": ver,
    },
    "caught_by": caught,
    "note": note,
}
json.dump(meta, open(os.path.join(dst, "meta.json"), "w"), indent=1)
print("stored", dst)
