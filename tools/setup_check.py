#!/venv/bin/python
"""setup_cmd: nothing to build (pure Python, stdlib only); verify the environment and self-test the oracle codec."""
import os
import sys

HERE = os.path.dirname(os.path.dirname(os.path.abspath(__file__)))
sys.path.insert(0, HERE)
sys.dont_write_bytecode = True
from vlib import common, wire  # noqa

mods = common.import_guard()
# self-test of the independent codec: build -> parse round trip, and agreement with a hand-assembled packet
pkt = wire.build(id_=7, flags=0x8400, questions=[("a.local.", 12, 1)],
                 answers=[("a.local.", 12, 1, 120, "b.a.local."), ("b.a.local.", 33, 0x8001, 120, (0, 0, 80, "h.local.")),
                          ("h.local.", 1, 0x8001, 120, b"\x01\x02\x03\x04"), ("h.local.", 47, 0x8001, 120, ("h.local.", [1, 28]))])
m = wire.parse(pkt)
assert [q.tup() for q in m.questions] == [("a.local.", 12, 1, False)]
assert m.answers[1].tup()[5] == (0, 0, 80, "h.local."), m.answers[1].tup()
assert m.answers[3].tup()[5] == ("h.local.", (1, 28))
hand = bytes.fromhex("0000840000000001000000000161056c6f63616c00000c000100000078000401620" "0c00c".replace(" ", ""))
hand = bytes.fromhex("000084000000000100000000" "0161056c6f63616c00" "000c" "0001" "00000078" "0004" "0162c00c")
hm = wire.parse(hand)
assert hm.answers[0].tup() == ("a.local.", 12, 1, False, 120, "b.a.local."), hm.answers[0].tup()
os.makedirs(os.path.join(HERE, "evidence"), exist_ok=True)
print("setup ok: %d zeroconf modules resolve to %s; oracle codec self-test passed" % (len(mods), common.REPO_SRC))
