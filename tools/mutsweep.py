#!/usr/bin/env python3
"""Monitor validation at scale: generated single-edit changes of the repository, filtered by the repository's own test suite,
then run against the checks.

  tools/mutsweep.py gen  <out.json> [--files f1,f2,...] [--max-per-file N] [--seed S]
  tools/mutsweep.py suite <muts.json> <out.json> [--jobs N]        keep the changes the unedited test suite does not notice
  tools/mutsweep.py checks <survivors.json> <out.json> [--jobs N]  run the checks anchored in the edited file (fail-fast)
  tools/mutsweep.py report <results.json>

Every change is applied to a scratch copy of /repo/src under /tmp (removed straight afterwards); /repo is never touched.
A change that survives both the suite and the checks is either equivalent (behaviour unchanged as far as any property can
tell), outside every property, or a blind spot of a check - the report lists them for triage.  The verdicts of the registered
checks never depend on this tool.
"""
from __future__ import annotations

import argparse
import ast
import concurrent.futures
import json
import os
import random
import shutil
import subprocess
import sys
import tempfile
from typing import Any, Dict, List, Tuple

HERE = os.path.dirname(os.path.dirname(os.path.abspath(__file__)))
SRC = "/repo/src/zeroconf"

# file (relative to src/zeroconf) -> checks whose properties are anchored there
ANCHORS: Dict[str, List[str]] = {
    "_protocol/outgoing.py": ["C01", "C14", "C13"],
    "_protocol/incoming.py": ["C02", "C01", "C15"],
    "_dns.py": ["C20", "C01", "C05", "C13", "C03"],
    "_cache.py": ["C05", "C06", "C18"],
    "_handlers/record_manager.py": ["C06", "C04", "C16"],
    "_handlers/query_handler.py": ["C03", "C11", "C12", "C16"],
    "_handlers/answers.py": ["C12", "C11", "C03"],
    "_handlers/multicast_outgoing_queue.py": ["C12", "C08", "C16"],
    "_listener.py": ["C16", "C15", "C12", "C11"],
    "_history.py": ["C13"],
    "_services/browser.py": ["C04", "C10", "C13", "C07"],
    "_services/info.py": ["C18", "C13", "C09", "C19", "C03", "C07"],
    "_services/registry.py": ["C03", "C08", "C09"],
    "_core.py": ["C09", "C08", "C17", "C03", "C12", "C11", "C07"],
    "_utils/name.py": ["C19", "C09"],
    "asyncio.py": ["C17", "C08"],
    "_engine.py": ["C17", "C15", "C11"],
    "_updates.py": ["C06"],
    "_record_update.py": ["C06"],
    "_utils/time.py": ["C05", "C12"],
    "_utils/asyncio.py": ["C17"],
    "_transport.py": ["C11"],
    "const.py": ["C12", "C10", "C09", "C13", "C14", "C08", "C18", "C06"],
}

CMP = {ast.Lt: "<", ast.LtE: "<=", ast.Gt: ">", ast.GtE: ">=", ast.Eq: "==", ast.NotEq: "!=", ast.Is: "is", ast.IsNot: "is not",
       ast.In: "in", ast.NotIn: "not in"}
CMP_SWAP = {"<": "<=", "<=": "<", ">": ">=", ">=": ">", "==": "!=", "!=": "==", "is": "is not", "is not": "is", "in": "not in",
            "not in": "in"}
BIN = {ast.Add: "+", ast.Sub: "-", ast.Mult: "*", ast.Div: "/", ast.FloorDiv: "//"}
BIN_SWAP = {"+": "-", "-": "+", "*": "/", "/": "*", "//": "*"}
SCALE_ONLY = os.environ.get("MUT_SCALE_ONLY") == "1"     # second family: numeric constants >= 10 doubled / halved, nothing else
SKIP_FUNCS = {"__repr__", "__str__", "_repr_base", "__init_subclass__", "log_warning_once", "log_exception_warning",
              "log_exception_debug", "log_exception_once", "_entry_as_string", "_dns_incoming_as_string"}


class Gen(ast.NodeVisitor):
    def __init__(self, rel: str, text: str) -> None:
        self.rel, self.text = rel, text
        self.lines = text.split("\n")
        self.offs = [0]
        for ln in self.lines:
            self.offs.append(self.offs[-1] + len(ln) + 1)
        self.out: List[Dict[str, Any]] = []
        self.func: List[str] = []
        self.skip = 0

    # positions
    def pos(self, lineno: int, col: int) -> int:
        # col offsets are utf-8 byte offsets; the sources are ASCII except for a handful of comment characters
        line = self.lines[lineno - 1]
        return self.offs[lineno - 1] + len(line.encode()[:col].decode(errors="ignore"))

    def span(self, node: ast.AST) -> Tuple[int, int]:
        return self.pos(node.lineno, node.col_offset), self.pos(node.end_lineno, node.end_col_offset)  # type: ignore[attr-defined]

    def add(self, a: int, b: int, new: str, op: str, lineno: int) -> None:
        if self.skip or (SCALE_ONLY and op != "int_scale"):
            return
        old = self.text[a:b]
        if old == new:
            return
        self.out.append({"file": self.rel, "a": a, "b": b, "old": old, "new": new, "op": op, "line": lineno,
                         "func": ".".join(self.func) or "<module>", "src": self.lines[lineno - 1].strip()[:160]})

    def gap_replace(self, a: int, b: int, tok: str, new: str, op: str, lineno: int) -> None:
        seg = self.text[a:b]
        i = seg.find(tok)
        if i < 0:
            return
        # the token must stand alone (`in` inside an identifier does not occur in a gap, but be careful anyway)
        self.add(a + i, a + i + len(tok), new, op, lineno)

    # structure
    def visit_FunctionDef(self, node: Any) -> None:
        self.func.append(node.name)
        skip = node.name in SKIP_FUNCS
        self.skip += skip
        for st in node.body:
            if isinstance(st, ast.Expr) and isinstance(st.value, ast.Constant) and isinstance(st.value.value, str):
                continue
            self.visit(st)
        self.skip -= skip
        self.func.pop()

    visit_AsyncFunctionDef = visit_FunctionDef

    def visit_ClassDef(self, node: ast.ClassDef) -> None:
        self.func.append(node.name)
        for st in node.body:
            if isinstance(st, ast.Expr) and isinstance(st.value, ast.Constant):
                continue
            if isinstance(st, (ast.Assign, ast.AnnAssign)) and any(isinstance(t, ast.Name) and t.id == "__slots__" for t in getattr(st, "targets", [getattr(st, "target", None)])):
                continue
            self.visit(st)
        self.func.pop()

    def visit_If(self, node: ast.If) -> None:
        t = node.test
        if (isinstance(t, ast.Name) and t.id == "TYPE_CHECKING") or (isinstance(t, ast.Attribute) and t.attr == "TYPE_CHECKING"):
            return
        a, b = self.span(t)
        self.add(a, b, "not (%s)" % self.text[a:b], "negate_if", node.lineno)
        self.generic_visit(node)

    def visit_While(self, node: ast.While) -> None:
        a, b = self.span(node.test)
        if not (isinstance(node.test, ast.Constant)):
            self.add(a, b, "not (%s)" % self.text[a:b], "negate_while", node.lineno)
        self.generic_visit(node)

    def visit_IfExp(self, node: ast.IfExp) -> None:
        a, b = self.span(node.test)
        self.add(a, b, "not (%s)" % self.text[a:b], "negate_ifexp", node.lineno)
        self.generic_visit(node)

    def visit_Assert(self, node: ast.Assert) -> None:
        return

    def visit_AnnAssign(self, node: ast.AnnAssign) -> None:
        if node.value is not None:
            self.visit(node.value)

    def visit_arguments(self, node: ast.arguments) -> None:
        for dflt in list(node.defaults) + [d for d in node.kw_defaults if d is not None]:
            self.visit(dflt)

    def visit_Compare(self, node: ast.Compare) -> None:
        left = node.left
        for op, right in zip(node.ops, node.comparators):
            tok = CMP.get(type(op))
            if tok:
                a = self.pos(left.end_lineno, left.end_col_offset)  # type: ignore[attr-defined]
                b = self.pos(right.lineno, right.col_offset)
                self.gap_replace(a, b, tok, CMP_SWAP[tok], "cmp", node.lineno)
            left = right
        self.generic_visit(node)

    def visit_BoolOp(self, node: ast.BoolOp) -> None:
        tok = "and" if isinstance(node.op, ast.And) else "or"
        for l, r in zip(node.values, node.values[1:]):
            a = self.pos(l.end_lineno, l.end_col_offset)  # type: ignore[attr-defined]
            b = self.pos(r.lineno, r.col_offset)
            self.gap_replace(a, b, tok, "or" if tok == "and" else "and", "boolop", node.lineno)
        self.generic_visit(node)

    def visit_UnaryOp(self, node: ast.UnaryOp) -> None:
        if isinstance(node.op, ast.Not):
            a, _ = self.span(node)
            b, _ = self.span(node.operand)
            self.add(a, b, "", "drop_not", node.lineno)
        self.generic_visit(node)

    def visit_BinOp(self, node: ast.BinOp) -> None:
        tok = BIN.get(type(node.op))
        if tok and not (isinstance(node.left, ast.Constant) and isinstance(node.left.value, (str, bytes))):
            a = self.pos(node.left.end_lineno, node.left.end_col_offset)  # type: ignore[attr-defined]
            b = self.pos(node.right.lineno, node.right.col_offset)
            self.gap_replace(a, b, tok, BIN_SWAP[tok], "binop", node.lineno)
        self.generic_visit(node)

    def visit_Constant(self, node: ast.Constant) -> None:
        v = node.value
        a, b = self.span(node)
        if v is True or v is False:
            self.add(a, b, "False" if v else "True", "bool_const", node.lineno)
        elif isinstance(v, int) and not isinstance(v, bool):
            if self.text[a:b].lower().startswith("0x") and v > 0xff:
                self.add(a, b, hex(v >> 1), "int_const", node.lineno)
            elif SCALE_ONLY:
                if v >= 10:
                    self.add(a, b, str(v * 2), "int_scale", node.lineno)
                    self.add(a, b, str(v // 2), "int_scale", node.lineno)
            else:
                self.add(a, b, str(v + 1), "int_const", node.lineno)
                if v > 1:
                    self.add(a, b, str(v - 1), "int_const", node.lineno)
        elif isinstance(v, float):
            self.add(a, b, repr(v * 2), "float_const", node.lineno)
            self.add(a, b, repr(v / 2), "float_const", node.lineno)

    def visit_Expr(self, node: ast.Expr) -> None:
        v = node.value
        if isinstance(v, ast.Await):
            v = v.value
        if isinstance(v, ast.Call):
            f = v.func
            name = ast.unparse(f)
            if name.startswith("log.") or name.startswith("logging.") or name in ("warnings.warn",) or name.startswith("self.log"):
                return
            if not isinstance(node.value, ast.Await):
                a, b = self.span(node)
                self.add(a, b, "pass", "drop_call", node.lineno)
        self.generic_visit(node)

    def visit_AugAssign(self, node: ast.AugAssign) -> None:
        a, b = self.span(node)
        self.add(a, b, "pass", "drop_augassign", node.lineno)
        self.generic_visit(node)

    def visit_Continue(self, node: ast.Continue) -> None:
        a, b = self.span(node)
        self.add(a, b, "pass", "drop_continue", node.lineno)

    def visit_Break(self, node: ast.Break) -> None:
        a, b = self.span(node)
        self.add(a, b, "pass", "drop_break", node.lineno)

    def visit_Return(self, node: ast.Return) -> None:
        if node.value is not None:
            v = node.value
            if isinstance(v, ast.Constant) and v.value in (True, False):
                pass  # bool_const covers it
            self.generic_visit(node)
        else:
            a, b = self.span(node)
            self.add(a, b, "pass", "drop_return", node.lineno)

    def visit_Raise(self, node: ast.Raise) -> None:
        return

    def visit_Try(self, node: ast.Try) -> None:
        for st in node.body + node.orelse + node.finalbody:
            self.visit(st)
        for h in node.handlers:
            for st in h.body:
                self.visit(st)


def generate(files: List[str]) -> List[Dict[str, Any]]:
    muts: List[Dict[str, Any]] = []
    for rel in files:
        text = open(os.path.join(SRC, rel)).read()
        g = Gen(rel, text)
        g.visit(ast.parse(text))
        for m in g.out:
            new_text = text[:m["a"]] + m["new"] + text[m["b"]:]
            try:
                compile(new_text, rel, "exec")
            except SyntaxError:
                continue
            muts.append(m)
    base = subprocess.run(["git", "-C", "/repo", "rev-parse", "HEAD"], stdout=subprocess.PIPE, check=True).stdout.decode().strip()
    for i, m in enumerate(muts):
        m["id"] = i
        m["base"] = base
    return muts


def scratch(m: Dict[str, Any]) -> str:
    tmp = tempfile.mkdtemp(prefix="ms_", dir="/tmp")
    if m.get("base"):
        # the tree the change was generated from (later commits in /repo must not shift the recorded offsets)
        ar = subprocess.run(["git", "-C", "/repo", "archive", m["base"], "src"], stdout=subprocess.PIPE, check=True)
        subprocess.run(["tar", "-x", "-C", tmp], input=ar.stdout, check=True)
    else:
        shutil.copytree("/repo/src", os.path.join(tmp, "src"), ignore=shutil.ignore_patterns("__pycache__", "*.so", "*.c"))
    p = os.path.join(tmp, "src", "zeroconf", m["file"])
    text = open(p).read()
    assert text[m["a"]:m["b"]] == m["old"], "source changed since generation"
    open(p, "w").write(text[:m["a"]] + m["new"] + text[m["b"]:])
    return tmp


def suite_one(m: Dict[str, Any]) -> Dict[str, Any]:
    tmp = scratch(m)
    try:
        cmd = [os.path.join(HERE, "tools", "netns_run.sh"), "env", "PYTHONDONTWRITEBYTECODE=1", "/venv/bin/python", "-m", "pytest", "-x", "-q",
               "-p", "no:cacheprovider", "--timeout=300", "-o", "addopts=", "-o", "pythonpath=" + os.path.join(tmp, "src"), "tests"]
        try:
            p = subprocess.run(cmd, cwd="/repo", stdout=subprocess.PIPE, stderr=subprocess.STDOUT, timeout=1200)
            tail = p.stdout.decode(errors="replace").strip().splitlines()[-1:] or [""]
            m["suite"] = "pass" if p.returncode == 0 else "fail"
            m["suite_tail"] = tail[0][-160:]
        except subprocess.TimeoutExpired:
            m["suite"] = "timeout"
    finally:
        shutil.rmtree(tmp, ignore_errors=True)
    return m


def checks_one(m: Dict[str, Any], jobs: int, ids: List[str]) -> Dict[str, Any]:
    tmp = scratch(m)
    m["checks"] = {}
    try:
        env = dict(os.environ, VERIF_REPO=tmp, VERIF_FAILFAST="1")
        for pid in ids or m.get("ids") or ANCHORS.get(m["file"], []):
            p = subprocess.run(["/venv/bin/python", os.path.join(HERE, "run_check.py"), pid, "--tier", "quick", "--no-evidence", "--jobs", str(jobs)],
                               env=env, stdout=subprocess.PIPE, stderr=subprocess.STDOUT, cwd=HERE)
            out = p.stdout.decode(errors="replace")
            viol = [l.strip() for l in out.splitlines() if l.strip().startswith("violated")]
            inc = [l.strip() for l in out.splitlines() if l.startswith("INCONCLUSIVE")]
            m["checks"][pid] = {"exit": p.returncode, "first": (viol[0][:300] if viol else (inc[0][:300] if inc else ""))}
            if p.returncode == 1:
                break
    finally:
        shutil.rmtree(tmp, ignore_errors=True)
    m["caught"] = any(c["exit"] == 1 for c in m["checks"].values())
    m["inconclusive"] = (not m["caught"]) and any(c["exit"] not in (0, 1) for c in m["checks"].values())
    return m


def main() -> None:
    ap = argparse.ArgumentParser()
    ap.add_argument("cmd", choices=["gen", "suite", "checks", "report"])
    ap.add_argument("a")
    ap.add_argument("b", nargs="?")
    ap.add_argument("--files", default="")
    ap.add_argument("--max-per-file", type=int, default=0)
    ap.add_argument("--seed", type=int, default=1)
    ap.add_argument("--jobs", type=int, default=8)
    ap.add_argument("--ids", default="")
    ap.add_argument("--inner-jobs", type=int, default=2)
    args = ap.parse_args()
    if args.cmd == "gen":
        files = [f for f in args.files.split(",") if f] or sorted(ANCHORS)
        muts = generate(files)
        if args.max_per_file:
            rnd = random.Random(args.seed)
            by: Dict[str, List[Dict[str, Any]]] = {}
            for m in muts:
                by.setdefault(m["file"], []).append(m)
            muts = []
            for f in sorted(by):
                ms = by[f]
                rnd.shuffle(ms)
                muts.extend(sorted(ms[: args.max_per_file], key=lambda m: m["id"]))
        json.dump(muts, open(args.a, "w"), indent=0)
        cnt: Dict[str, int] = {}
        for m in muts:
            cnt[m["file"]] = cnt.get(m["file"], 0) + 1
        for f in sorted(cnt):
            print("%5d %s" % (cnt[f], f))
        print("%5d total" % len(muts))
    elif args.cmd == "suite":
        muts = json.load(open(args.a))
        done: List[Dict[str, Any]] = []
        if os.path.exists(args.b):
            # resume: keep what an interrupted run has already decided
            done = [m for m in json.load(open(args.b)) if m.get("suite") in ("pass", "fail")]
            have = {m["id"] for m in done}
            muts = [m for m in muts if m["id"] not in have]
            print("resuming: %d decided, %d to go" % (len(done), len(muts)), flush=True)
        with concurrent.futures.ThreadPoolExecutor(max_workers=args.jobs) as ex:
            for i, m in enumerate(ex.map(suite_one, muts)):
                done.append(m)
                if i % 20 == 0:
                    json.dump(done, open(args.b, "w"), indent=0)
                    print("suite %d/%d pass=%d" % (i + 1, len(muts), sum(1 for x in done if x["suite"] == "pass")), flush=True)
        json.dump(done, open(args.b, "w"), indent=0)
        print("suite survivors: %d of %d" % (sum(1 for x in done if x["suite"] == "pass"), len(done)))
    elif args.cmd == "checks":
        muts = [m for m in json.load(open(args.a)) if m.get("suite") == "pass"]
        ids = [x for x in args.ids.split(",") if x]
        done = []
        if os.path.exists(args.b):
            done = [m for m in json.load(open(args.b)) if "caught" in m]
            have = {m["id"] for m in done}
            muts = [m for m in muts if m["id"] not in have]
            print("resuming: %d decided, %d to go" % (len(done), len(muts)), flush=True)
        with concurrent.futures.ThreadPoolExecutor(max_workers=args.jobs) as ex:
            for i, m in enumerate(ex.map(lambda mm: checks_one(mm, args.inner_jobs, ids), muts)):
                done.append(m)
                json.dump(done, open(args.b, "w"), indent=0)
                print("%d/%d %s:%d %s %r->%r  %s" % (i + 1, len(muts), m["file"], m["line"], m["op"], m["old"][:30], m["new"][:30],
                                                      "CAUGHT " + next(k for k, c in m["checks"].items() if c["exit"] == 1) if m["caught"] else ("INCONCLUSIVE" if m["inconclusive"] else "SURVIVED")), flush=True)
    else:
        done = json.load(open(args.a))
        n = len(done)
        c = sum(1 for m in done if m.get("caught"))
        inc = sum(1 for m in done if m.get("inconclusive"))
        print("suite-surviving changes: %d   caught by a check: %d   inconclusive: %d   survived: %d" % (n, c, inc, n - c - inc))
        for m in done:
            if not m.get("caught"):
                print("%s %s:%d [%s] %s  %r -> %r   | %s" % ("INC " if m.get("inconclusive") else "SURV", m["file"], m["line"], m["func"], m["op"], m["old"][:40], m["new"][:40], m["src"]))


if __name__ == "__main__":
    main()
