#!/usr/bin/env python3
"""Development aid: which lines of the repository does a check's workload reach?

usage: tools/cov.py <ID> [--tier quick] [--shards N] [files...]

Runs the first N shards of the check's plan in-process under coverage.py (branch mode) and prints, for the given
source files (paths relative to src/zeroconf, default: all), the lines and branches never reached.  Used to find
code behind a property that no generator drives; the verdicts never depend on it.
"""
import argparse
import importlib
import os
import sys

HERE = os.path.dirname(os.path.dirname(os.path.abspath(__file__)))
sys.path.insert(0, HERE)
os.environ.setdefault("PYTHONHASHSEED", "0")


def main():
    ap = argparse.ArgumentParser()
    ap.add_argument("pid")
    ap.add_argument("--tier", default="quick")
    ap.add_argument("--shards", type=int, default=4)
    ap.add_argument("--seed", type=int, default=20260924)
    ap.add_argument("files", nargs="*")
    args = ap.parse_args()
    import coverage
    from vlib import common
    os.environ[common.GUARD_ENV] = "1"
    src = os.path.join(common.REPO, "src", "zeroconf")
    cov = coverage.Coverage(branch=True, source=[src], data_file=None)
    cov.start()
    common.import_guard()
    mod = importlib.import_module("vlib.checks." + args.pid.lower())
    specs = mod.plan(args.tier, args.seed)
    step = max(1, len(specs) // args.shards)
    chosen = specs[::step][: args.shards]
    for spec in chosen:
        try:
            mod.run_shard(spec)
        except common.Inconclusive as e:
            print("inconclusive:", e)
    cov.stop()
    files = [os.path.join(src, f) for f in args.files] or None
    cov.report(morfs=files, show_missing=True, skip_covered=False, file=sys.stdout)


if __name__ == "__main__":
    main()
