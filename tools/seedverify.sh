#!/bin/bash
# Verify a sub-agent's seeded change independently: usage seedverify.sh <worktree> <ID>
# 1) patch applies to a fresh worktree of /repo HEAD  2) demo passes on the original, fails with the change  3) full suite passes with it
set -u
WT=$1; ID=$2
V=/tmp/verify_$ID
rm -rf $V; git -C /repo worktree prune; git -C /repo worktree add -q --detach $V HEAD || exit 9
cp $WT/patch.diff $V/patch.diff; cp $WT/demo_$ID.py $V/demo_$ID.py
cd $V
PYTHONPATH=$V/src timeout 900 /venv/bin/python demo_$ID.py > /tmp/verify_${ID}_orig.log 2>&1; echo "demo on ORIGINAL exit=$? :: $(tail -1 /tmp/verify_${ID}_orig.log | cut -c1-160)"
git apply patch.diff || { echo "PATCH DOES NOT APPLY"; cd /; git -C /repo worktree remove --force $V; exit 8; }
PYTHONPATH=$V/src timeout 900 /venv/bin/python demo_$ID.py > /tmp/verify_${ID}_mut.log 2>&1; echo "demo WITH change exit=$? :: $(tail -1 /tmp/verify_${ID}_mut.log | cut -c1-160)"
echo "suite WITH change (private netns): $(/verif/tools/netns_run.sh env PYTHONPATH=$V/src /venv/bin/python -m pytest -q -p no:cacheprovider --timeout=900 tests 2>&1 | tail -1)"
cd /; git -C /repo worktree remove --force $V
