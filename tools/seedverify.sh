#!/bin/bash
# Verify a sub-agent's seeded change independently: usage seedverify.sh <worktree> <ID>
# 1) patch applies to a fresh worktree of /repo HEAD  2) full test suite passes with it  3) demo fails with it, passes without it
set -u
WT=$1; ID=$2
V=/tmp/verify_$ID
rm -rf $V; git -C /repo worktree add -q --detach $V HEAD || exit 9
cp $WT/patch.diff $V/patch.diff; cp $WT/demo_$ID.py $V/demo_$ID.py
cd $V
echo "--- demo on ORIGINAL:"; PYTHONPATH=$V/src timeout 600 /venv/bin/python demo_$ID.py > /tmp/verify_${ID}_orig.log 2>&1; echo "exit=$?"; tail -2 /tmp/verify_${ID}_orig.log
git apply patch.diff || { echo "PATCH DOES NOT APPLY"; git -C /repo worktree remove --force $V; exit 8; }
echo "--- demo WITH change:"; PYTHONPATH=$V/src timeout 600 /venv/bin/python demo_$ID.py > /tmp/verify_${ID}_mut.log 2>&1; echo "exit=$?"; tail -3 /tmp/verify_${ID}_mut.log
echo "--- test suite WITH change:"; PYTHONPATH=$V/src /venv/bin/python -m pytest -q -p no:cacheprovider --timeout=900 tests 2>&1 | tail -1
cd /; git -C /repo worktree remove --force $V
