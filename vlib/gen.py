"""Generators for names, records and messages (plain tuples; no zeroconf imports here).

Record spec (plain, JSON-able after hexing bytes):
    ("A", name, cls, ttl, addr4) ("AAAA", name, cls, ttl, addr16) ("PTR"|"CNAME", name, cls, ttl, alias)
    ("TXT", name, cls, ttl, text) ("SRV", name, cls, ttl, prio, weight, port, server)
    ("HINFO", name, cls, ttl, cpu, os) ("NSEC", name, cls, ttl, next_name, [types])
cls carries the unique bit (0x8000).
Question spec: ("Q", name, type, cls)  (cls carries the QU bit)
"""
from __future__ import annotations

import random
from typing import Any, List, Sequence, Tuple

TYPE_OF = {"A": 1, "CNAME": 5, "PTR": 12, "HINFO": 13, "TXT": 16, "AAAA": 28, "SRV": 33, "NSEC": 47}
KINDS = ["A", "AAAA", "PTR", "CNAME", "TXT", "SRV", "HINFO", "NSEC"]

ASCII = "abcdefghijklmnopqrstuvwxyz"
ALPHABETS = [
    ASCII,
    ASCII + ASCII.upper(),
    ASCII + "0123456789-_",
    ASCII + " '()!",
    "é" + "ü" + "ß" + "ñ" + ASCII,            # 2-byte utf-8
    "日本語テスト" + ASCII[:5],                  # 3-byte utf-8
    "\U0001F600\U0001F4A9" + ASCII[:5],          # 4-byte utf-8
]

SUFFIXES = ["local.", "_tcp.local.", "_udp.local.", "_http._tcp.local.", "_ipp._tcp.local.",
            "_sub._http._tcp.local.", "_services._dns-sd._udp.local.", "example.com.", "Local."]

TTLS = [0, 1, 2, 120, 1124, 1125, 4500, 2 ** 31 - 1, 2 ** 31, 2 ** 32 - 1]


def utf8len(s: str) -> int:
    return len(s.encode("utf-8"))


def make_label(rng: random.Random, nbytes: int, alphabet: str = "") -> str:
    """A label of exactly nbytes UTF-8 bytes (no dots, non-empty)."""
    alphabet = alphabet or rng.choice(ALPHABETS)
    out = []
    left = nbytes
    while left > 0:
        ch = rng.choice(alphabet)
        n = utf8len(ch)
        if n > left:
            ch = rng.choice(ASCII)
            n = 1
        out.append(ch)
        left -= n
    return "".join(out)


LABEL_LEN_BUCKETS = [1, 1, 2, 3, 5, 8, 13, 20, 31, 62, 63]
LONG_LABEL_LENS = [64, 65, 100, 200]


def name_ok(name: str) -> bool:
    """Inside the C01 quantifier: fqdn, no empty labels, <=253 chars (and <=255 octets on the wire)."""
    if not name.endswith(".") or name == ".":
        return False
    labels = name[:-1].split(".")
    if any(l == "" for l in labels):
        return False
    if len(name) > 253:
        return False
    if sum(utf8len(l) + 1 for l in labels) + 1 > 255:
        return False
    return True


def max_label_bytes(name: str) -> int:
    return max(utf8len(l) for l in name[:-1].split("."))


class NamePool:
    """Produces names with controlled suffix sharing."""

    def __init__(self, rng: random.Random, allow_long_labels: bool = True):
        self.rng = rng
        self.allow_long = allow_long_labels
        self.names: List[str] = []

    def fresh(self, long_label_p: float = 0.03) -> str:
        rng = self.rng
        for _ in range(50):
            suffix = rng.choice(SUFFIXES) if rng.random() < 0.8 or not self.names else rng.choice(self.names)
            nlabels = rng.choice([1, 1, 1, 2, 2, 3, 5])
            labels = []
            for _i in range(nlabels):
                if self.allow_long and rng.random() < long_label_p:
                    ln = rng.choice(LONG_LABEL_LENS)
                else:
                    ln = rng.choice(LABEL_LEN_BUCKETS)
                labels.append(make_label(rng, ln))
            name = ".".join(labels) + "." + suffix
            if name_ok(name):
                return name
        return "x.local."

    def near_limit(self) -> str:
        """A name of exactly 253 characters (or as close as octet limit allows)."""
        rng = self.rng
        suffix = rng.choice(["local.", "_tcp.local."])
        labels: List[str] = []
        # ascii only so chars == bytes: total chars = sum(len)+count ; need == 253
        remaining = 253 - len(suffix)
        while remaining > 0:
            ln = min(63, remaining - 1)
            if ln <= 0:
                break
            if remaining - 1 - ln == 1:  # would leave 1 char: impossible (label+dot = 2)
                ln -= 1
            labels.append(make_label(rng, ln, ASCII))
            remaining -= ln + 1
        name = ".".join(labels) + "." + suffix
        assert name_ok(name), (len(name), name)
        return name

    def near_octet_limit(self) -> str:
        """A name with non-ASCII text whose wire form is exactly 253, 254 or 255 octets (the RFC 1035 maximum) while its
        character count stays far below 253."""
        rng = self.rng
        suffix = rng.choice(["local.", "_tcp.local."])
        target = rng.choice([253, 254, 255, 255])
        wire = sum(utf8len(l) + 1 for l in suffix[:-1].split(".")) + 1
        labels: List[str] = []
        alpha = rng.choice(["é", "éü" + ASCII[:3], "日本" + ASCII[:2], "\U0001F600" + ASCII[:2]])
        while wire < target:
            room = target - wire - 1            # bytes available for the next label
            if room <= 0:
                break
            ln = min(63, room)
            if room - ln == 1:                  # would leave room for a length byte only
                ln -= 1
            if ln <= 0:
                break
            labels.append(make_label(rng, ln, alpha))
            wire += ln + 1
        name = ".".join(labels) + "." + suffix
        return name if name_ok(name) else "x.local."

    def many_labels(self) -> str:
        """A legal name made of very many short labels (up to 126 of them: 253 characters allow no more)."""
        rng = self.rng
        suffix = rng.choice(["local.", "_tcp.local.", "_sub._ipp._tcp.local."])
        n = rng.choice([40, 63, 64, 65, 66, 100, 120, 123, 126])
        labels: List[str] = []
        total = len(suffix)
        for _ in range(n):
            ln = 1 if rng.random() < 0.85 else 2
            if total + ln + 1 > 253:
                break
            labels.append(make_label(rng, ln, ASCII))
            total += ln + 1
        name = ".".join(labels) + "." + suffix
        return name if name_ok(name) else "x.local."

    def variant(self, name: str) -> str:
        """A name related to an existing one: re-cased / sibling / child / parent."""
        rng = self.rng
        labels = name[:-1].split(".")
        how = rng.choice(["swapcase", "upper", "sibling", "child", "parent", "same", "title"])
        if how == "swapcase":
            out = name.swapcase()
        elif how == "upper":
            out = name.upper()
        elif how == "title":
            out = ".".join(l[:1].upper() + l[1:] for l in labels) + "."
        elif how == "sibling":
            out = ".".join([make_label(rng, rng.choice(LABEL_LEN_BUCKETS))] + labels[1:]) + "."
        elif how == "child":
            out = make_label(rng, rng.choice(LABEL_LEN_BUCKETS)) + "." + name
        elif how == "parent" and len(labels) > 1:
            out = ".".join(labels[1:]) + "."
        else:
            out = name
        return out if name_ok(out) else name

    def get(self) -> str:
        rng = self.rng
        r = rng.random()
        if self.names and r < 0.35:
            n = rng.choice(self.names)
        elif self.names and r < 0.6:
            n = self.variant(rng.choice(self.names))
        elif r < 0.63:
            n = self.near_limit()
        elif r < 0.66:
            n = self.many_labels()
        elif r < 0.69:
            n = self.near_octet_limit()
        else:
            n = self.fresh()
        if n not in self.names:
            self.names.append(n)
            if len(self.names) > 40:
                self.names.pop(rng.randrange(len(self.names)))
        return n


def rand_bytes(rng: random.Random, n: int) -> bytes:
    return bytes(rng.getrandbits(8) for _ in range(n)) if n < 64 else rng.getrandbits(8 * n).to_bytes(n, "big")


def txt_of_size(rng: random.Random, n: int) -> bytes:
    """TXT rdata of exactly n bytes made of well-formed character-strings (<=255 each)."""
    out = bytearray()
    left = n
    while left > 0:
        ln = min(255, left - 1)
        if left - 1 - ln == 0 or left - 1 - ln >= 1:
            pass
        out.append(ln)
        out += rand_bytes(rng, ln) if ln < 40 else bytes([rng.randrange(32, 127)]) * ln
        left -= ln + 1
    return bytes(out)


def gen_record(rng: random.Random, pool: NamePool, kind: str = "", size_hint: int = -1) -> Tuple:
    kind = kind or rng.choice(KINDS)
    name = pool.get()
    cls = rng.choice([1, 1, 1, 0x8001, 0x8001, 3, 0x80FF, 255])
    ttl = rng.choice(TTLS) if rng.random() < 0.8 else rng.randrange(0, 2 ** 32)
    if kind == "A":
        return ("A", name, cls, ttl, rand_bytes(rng, 4))
    if kind == "AAAA":
        return ("AAAA", name, cls, ttl, rand_bytes(rng, 16))
    if kind in ("PTR", "CNAME"):
        return (kind, name, cls, ttl, pool.get())
    if kind == "TXT":
        if size_hint >= 0:
            n = size_hint
        else:
            n = rng.choice([0, 1, 2, 10, 50, 255, 256, 257, 600, 1300]) if rng.random() < 0.9 else rng.randrange(0, 3000)
        return ("TXT", name, cls, ttl, txt_of_size(rng, n))
    if kind == "SRV":
        return ("SRV", name, cls, ttl, rng.choice([0, 1, 65535, rng.randrange(65536)]),
                rng.choice([0, 1, 65535, rng.randrange(65536)]), rng.choice([0, 80, 65535, rng.randrange(65536)]),
                pool.get())
    if kind == "HINFO":
        def cs() -> str:
            ln = rng.choice([0, 1, 5, 20, 254, 255])
            return make_label(rng, ln) if ln else ""
        return ("HINFO", name, cls, ttl, cs(), cs())
    if kind == "NSEC":
        ntypes = rng.choice([1, 1, 2, 3, 8, 30])
        top = rng.choice([7, 16, 28, 47, 255, 255])
        types = sorted(set(rng.randrange(0, top + 1) for _ in range(ntypes)))
        if rng.random() < 0.3:
            types = sorted(set(types + [top]))
        return ("NSEC", name, cls, ttl, pool.get() if rng.random() < 0.5 else name, types)
    raise ValueError(kind)


def gen_question(rng: random.Random, pool: NamePool) -> Tuple:
    return ("Q", pool.get(), rng.choice([1, 12, 16, 28, 33, 47, 255, 99]), rng.choice([1, 1, 0x8001, 255, 0x80FF]))


def spec_name_fields(spec: Sequence) -> List[str]:
    """All names carried by a spec (owner + rdata names)."""
    k = spec[0]
    out = [spec[1]]
    if k in ("PTR", "CNAME"):
        out.append(spec[4])
    elif k == "SRV":
        out.append(spec[7])
    elif k == "NSEC":
        out.append(spec[4])
    return out


def spec_to_json(spec: Sequence) -> List[Any]:
    return [x.hex() if isinstance(x, (bytes, bytearray)) else (list(x) if isinstance(x, (list, tuple)) else x) for x in spec]


def spec_from_json(js: Sequence) -> Tuple:
    k = js[0]
    out = list(js)
    if k in ("A", "AAAA", "TXT"):
        out[4] = bytes.fromhex(js[4])
    if k == "NSEC":
        out[5] = list(js[5])
    return tuple(out)
