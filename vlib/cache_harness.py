"""C05 / C06: real RecordManager + DNSCache + engine purge driven by generated histories,
checked against a plain-dict model of RFC 6762 section 10."""
from __future__ import annotations

import random
from typing import Any, Dict, List, Optional, Sequence, Set, Tuple

from . import simnet, wire
from .common import Result, tb

PTR_FLOOR = 1125

# ---------------------------------------------------------------------------------------
# vocabulary (plain tuples): (kind, owner, rdata...)   kind in PTR SRV TXT A AAAA

TYPE_NAME = ["_http._tcp.local.", "_HTTP._tcp.local."]
INST = ["one._http._tcp.local.", "ONE._http._tcp.local.", "two._http._tcp.local."]
HOST = ["host.local.", "HOST.local.", "other.local."]
TYPE_OF = {"PTR": 12, "SRV": 33, "TXT": 16, "A": 1, "AAAA": 28, "HINFO": 13, "NSEC": 47}
TTLS = [0, 1, 2, 120, 1124, 1125, 4500]


def vocab() -> List[Tuple]:
    v: List[Tuple] = []
    for tn in TYPE_NAME:
        for alias in INST:
            v.append(("PTR", tn, alias))
    for inst in INST[:2] + INST[2:]:
        for srv in ((0, 0, 80, HOST[0]), (0, 0, 81, HOST[0]), (0, 0, 80, HOST[1]), (0, 0, 80, HOST[2])):
            v.append(("SRV", inst) + srv)
        for txt in (b"\x03a=1", b"\x03a=2"):
            v.append(("TXT", inst, txt))
    for h in HOST:
        for a in (b"\x0a\x00\x00\x01", b"\x0a\x00\x00\x02"):
            v.append(("A", h, a))
        for a in (b"\xfe\x80" + b"\0" * 13 + b"\x01", b"\xfe\x80" + b"\0" * 13 + b"\x02"):
            v.append(("AAAA", h, a))
    # HINFO and NSEC: "all record types" of C06; NSEC is the one kind DNSCache.get() looks up by scanning the bucket
    for h in HOST[:2]:
        v.append(("HINFO", h, ("cpu", "os")))
        v.append(("HINFO", h, ("cpu", "os2")))
        v.append(("NSEC", h, (h, (1, 28))))
        v.append(("NSEC", h, (h, (1,))))
    v.append(("NSEC", INST[0], (INST[0], (16, 33))))
    return v


def identity(rec: Tuple) -> Tuple:
    k = rec[0]
    if k == "PTR":
        rd: Tuple = (rec[2].lower(),)
    elif k == "SRV":
        rd = (rec[2], rec[3], rec[4], rec[5].lower())
    elif k == "NSEC":
        rd = (rec[2][0], tuple(sorted(rec[2][1])))
    else:
        rd = (rec[2],)
    return (k, rec[1].lower(), rd)


def wire_rdata(rec: Tuple) -> Any:
    k = rec[0]
    if k == "PTR":
        return rec[2]
    if k == "SRV":
        return (rec[2], rec[3], rec[4], rec[5])
    return rec[2]


def lib_identity(r: Any) -> Tuple:
    import zeroconf._dns as d
    if isinstance(r, d.DNSPointer):
        return ("PTR", r.name.lower(), (r.alias.lower(),))
    if isinstance(r, d.DNSService):
        return ("SRV", r.name.lower(), (r.priority, r.weight, r.port, r.server.lower()))
    if isinstance(r, d.DNSText):
        return ("TXT", r.name.lower(), (r.text,))
    if isinstance(r, d.DNSAddress):
        return ("A" if r.type == 1 else "AAAA", r.name.lower(), (r.address,))
    if isinstance(r, d.DNSHinfo):
        return ("HINFO", r.name.lower(), ((r.cpu, r.os),))
    if isinstance(r, d.DNSNsec):
        return ("NSEC", r.name.lower(), (r.next_name, tuple(sorted(r.rdtypes))))
    return ("?", r.name.lower(), (repr(r),))


def build_datagram(records: Sequence[Tuple[Tuple, int, bool]], id_: int = 0, compress: Any = "full") -> bytes:
    """records: [(vocab_record, ttl, flush)]"""
    # header bits that mean nothing in a response (TC, no AA, RA, an rcode) in one datagram out of five, chosen from the id so
    # that the history stays reproducible
    flags = (0x8400, 0x8600, 0x8000, 0x8480, 0x8403)[id_ % 5] if id_ % 5 == id_ % 7 else 0x8400
    return wire.build(id_=id_, flags=flags,
                      answers=[(r[1], TYPE_OF[r[0]], 0x8001 if flush else 1, ttl, wire_rdata(r)) for r, ttl, flush in records],
                      compress=compress)


# ---------------------------------------------------------------------------------------
# reference model


class Entry:
    __slots__ = ("created", "ttl")

    def __init__(self, created: float, ttl: int):
        self.created = created
        self.ttl = ttl

    def expired(self, now: float) -> bool:
        return self.created + 1000 * self.ttl <= now

    def tup(self) -> Tuple[float, int]:
        return (self.created, self.ttl)


class CacheModel:
    def __init__(self) -> None:
        self.store: Dict[Tuple, Entry] = {}
        self.purged_log: List[Tuple] = []

    def snapshot(self) -> Dict[Tuple, Tuple[float, int]]:
        return {k: e.tup() for k, e in self.store.items()}

    def datagram(self, now: float, records: Sequence[Tuple[Tuple, int, bool]]):
        """Returns (updates, mid_state, final_state).  updates: [(identity, eff_ttl, had_old)] in datagram order."""
        updates: List[Tuple[Tuple, int, bool]] = []
        adds: List[Tuple[Tuple, int]] = []
        removes: Set[Tuple] = set()
        unique_keys: Set[Tuple[str, int]] = set()
        present = {identity(r) for r, _, _ in records}
        for r, ttl, flush in records:
            ident = identity(r)
            if ttl and r[0] == "PTR" and ttl < PTR_FLOOR:
                ttl = PTR_FLOOR
            if flush:
                unique_keys.add((r[1].lower(), r[0]))
            cached = self.store.get(ident)
            if ttl > 0:
                if cached is not None:
                    cached.created, cached.ttl = now, ttl
                    updates.append((ident, ttl, True))
                else:
                    adds.append((ident, ttl))
                    updates.append((ident, ttl, False))
            elif cached is not None:
                updates.append((ident, 0, True))
                removes.add(ident)
        for name, kind in unique_keys:
            for ident, e in self.store.items():
                if ident[1] == name and ident[0] == kind and now - e.created > 1000 and ident not in present:
                    e.created, e.ttl = now, 1
        mid = self.snapshot()
        for ident, ttl in adds:
            self.store[ident] = Entry(now, ttl)   # repeated record in one datagram: last one wins
        for ident in removes:
            self.store.pop(ident, None)
        return updates, mid, self.snapshot()

    def purge(self, now: float) -> List[Tuple]:
        gone = [k for k, e in self.store.items() if e.expired(now)]
        for k in gone:
            del self.store[k]
        self.purged_log.extend(gone)
        return gone


# ---------------------------------------------------------------------------------------
# observation of the real cache through its public lookups


def observe_cache(cache: Any, res: Result, viol, where: str) -> Optional[Dict[Tuple, Tuple[float, int]]]:
    """Read the whole cache through every public lookup path; report disagreements between the paths.
    Returns identity -> (created, ttl) as seen by entries_with_name (the reference path)."""
    import zeroconf._dns as d
    view: Dict[Tuple, Tuple[float, int]] = {}
    names = cache.names()
    res.mon("c05.paths_agree")
    if len(set(names)) != len(names):
        viol("c05.paths_agree", "names_duplicated", "%s: names() has duplicates: %r" % (where, names))
    all_names = set(n.lower() for n in TYPE_NAME + INST + HOST)
    for n in names:
        if n != n.lower():
            viol("c05.paths_agree", "names_not_lowercase", "%s: names() returned %r" % (where, n))
    for lname in sorted(all_names | set(names)):
        spellings = [lname, lname.upper()] + [s for s in TYPE_NAME + INST + HOST if s.lower() == lname]
        base = None
        for sp in spellings:
            ent = cache.entries_with_name(sp)
            ae = cache.async_entries_with_name(sp)
            cur = sorted((lib_identity(r), r.created, r.ttl) for r in ent)
            keys = sorted((lib_identity(r), r.created, r.ttl) for r in ae)
            vals = sorted((lib_identity(r), r.created, r.ttl) for r in (ae.values() if hasattr(ae, "values") else ae))
            if base is None:
                base = cur
            if cur != base:
                viol("c05.paths_agree", "spelling_changes_result", "%s: entries_with_name(%r) differs from other spelling" % (where, sp))
            if keys != cur or vals != cur:
                viol("c05.paths_agree", "async_entries_with_name_differs", "%s: async_entries_with_name(%r) keys=%r values=%r list=%r" % (where, sp, keys, vals, cur))
        assert base is not None
        if (lname in names) != bool(base):
            viol("c05.paths_agree", "names_vs_entries", "%s: %r in names() is %s but entries_with_name has %d records" % (where, lname, lname in names, len(base)))
        idents = [b[0] for b in base]
        if len(set(idents)) != len(idents):
            viol("c05.paths_agree", "duplicate_identity_in_bucket", "%s: bucket %r holds the same record twice" % (where, lname))
        for ident, created, ttl in base:
            view[ident] = (created, ttl)
        # by details
        by_type: Dict[int, List] = {}
        for ident, created, ttl in base:
            by_type.setdefault(TYPE_OF.get(ident[0], 0), []).append((ident, created, ttl))
        for type_ in (1, 12, 13, 16, 28, 33, 47):
            want = sorted(by_type.get(type_, []))
            for sp in spellings[:2]:
                ga = sorted((lib_identity(r), r.created, r.ttl) for r in cache.get_all_by_details(sp, type_, 1))
                aa = sorted((lib_identity(r), r.created, r.ttl) for r in cache.async_all_by_details(sp, type_, 1))
                g1 = cache.get_by_details(sp, type_, 1)
                if ga != want or aa != want:
                    viol("c05.paths_agree", "by_details_differs", "%s: (%r,%d) get_all=%r async_all=%r entries=%r" % (where, sp, type_, ga, aa, want))
                if (g1 is None) != (not want) or (g1 is not None and (lib_identity(g1), g1.created, g1.ttl) not in want):
                    viol("c05.paths_agree", "get_by_details_differs", "%s: get_by_details(%r,%d) -> %r, entries %r" % (where, sp, type_, g1, want))
    # exact-record paths, using fresh probe objects in both spellings
    for ident, (created, ttl) in list(view.items()):
        for probe in probes_for(d, ident):
            g = cache.get(probe)
            u = cache.async_get_unique(probe)
            for label, got in (("get", g), ("async_get_unique", u)):
                if got is None or (got.created, got.ttl) != (created, ttl):
                    viol("c05.paths_agree", "exact_lookup_differs",
                         "%s: %s(%r) -> %s but by-name paths hold it with created=%s ttl=%s" % (
                             where, label, probe, None if got is None else (got.created, got.ttl), created, ttl),
                         path=label)
    # SRV target index
    srv_by_server: Dict[str, List] = {}
    for ident, ct in view.items():
        if ident[0] == "SRV":
            srv_by_server.setdefault(ident[2][3], []).append((ident,) + ct)
    for server in sorted(set(h.lower() for h in HOST) | set(srv_by_server)):
        want = sorted(srv_by_server.get(server, []))
        for sp in (server, server.upper()):
            es = sorted((lib_identity(r), r.created, r.ttl) for r in cache.entries_with_server(sp))
            aes_d = cache.async_entries_with_server(sp)
            aes = sorted((lib_identity(r), r.created, r.ttl) for r in aes_d)
            aes_v = sorted((lib_identity(r), r.created, r.ttl) for r in (aes_d.values() if hasattr(aes_d, "values") else aes_d))
            if es != want or aes != want or aes_v != want:
                viol("c05.paths_agree", "server_index_differs", "%s: entries_with_server(%r)=%r async keys=%r values=%r expected %r" % (where, sp, es, aes, aes_v, want))
    return view


def probes_for(d: Any, ident: Tuple) -> List[Any]:
    kind, name, rd = ident
    out = []
    for nm in (name, name.upper()):
        if kind == "PTR":
            out.append(d.DNSPointer(nm, 12, 1, 0, rd[0], 1.0))
            out.append(d.DNSPointer(nm, 12, 0x8001, 77, rd[0].upper(), 1.0))
        elif kind == "SRV":
            out.append(d.DNSService(nm, 33, 1, 5, rd[0], rd[1], rd[2], rd[3], 1.0))
        elif kind == "TXT":
            out.append(d.DNSText(nm, 16, 0x8001, 5, rd[0], 1.0))
        elif kind == "A":
            out.append(d.DNSAddress(nm, 1, 1, 5, rd[0], created=1.0))
        elif kind == "AAAA":
            out.append(d.DNSAddress(nm, 28, 1, 5, rd[0], created=1.0))
        elif kind == "HINFO":
            out.append(d.DNSHinfo(nm, 13, 0x8001, 5, rd[0][0], rd[0][1], 1.0))
        elif kind == "NSEC":
            out.append(d.DNSNsec(nm, 47, 0x8001, 5, rd[0], list(rd[1]), 1.0))
    return out


def structural_invariant(cache: Any, viol, where: str, res: Result) -> None:
    import zeroconf._dns as d
    res.mon("c05.structure")
    srv_expected: Dict[str, Set[int]] = {}
    for key, bucket in cache.cache.items():
        if not bucket:
            viol("c05.structure", "empty_bucket", "%s: empty bucket left for %r" % (where, key))
        for k, v in bucket.items():
            if k is not v:
                viol("c05.structure", "key_is_not_value", "%s: bucket %r maps %r (created %s ttl %s) to a different object (created %s ttl %s)" % (
                    where, key, k, k.created, k.ttl, v.created, v.ttl))
            if k.key != key:
                viol("c05.structure", "record_in_wrong_bucket", "%s: %r in bucket %r" % (where, k, key))
            if isinstance(v, d.DNSService):
                srv_expected.setdefault(v.server_key, set()).add(id(v))
    got: Dict[str, Set[int]] = {}
    for key, bucket in cache.service_cache.items():
        if not bucket:
            viol("c05.structure", "empty_bucket", "%s: empty service_cache bucket for %r" % (where, key))
        for k, v in bucket.items():
            if k is not v:
                viol("c05.structure", "key_is_not_value", "%s: service_cache bucket %r key/value differ for %r" % (where, key, k))
            got.setdefault(key, set()).add(id(v))
    if got != srv_expected:
        viol("c05.structure", "service_cache_mismatch", "%s: service_cache does not mirror SRV records of cache" % where)


# ---------------------------------------------------------------------------------------
# history generation

CLOCK_STEPS = [0, 1, 999, 1000, 1001, 1999, 2000, 2001, 9999, 10000, 10001, 119999, 120000, 120001, 1124000, 1125000, 1125001, 4500000, 4500001]


def gen_history(rng: random.Random, length: int, voc: List[Tuple], listeners: bool = False) -> List[Tuple]:
    steps: List[Tuple] = []
    seen: List[Tuple] = []
    for _ in range(length):
        r = rng.random()
        if r < 0.62:
            n = rng.choice([1, 1, 2, 2, 3, 4])
            recs: List[Tuple[Tuple, int, bool]] = []
            for _j in range(n):
                mode = rng.random()
                if recs and mode < 0.22:
                    base, ttl, flush = rng.choice(recs)       # same record repeated inside the datagram
                    ttl2 = ttl if (rng.random() < 0.6 or ttl == 0) else rng.choice([t for t in TTLS if t > 0])
                    recs.append((base, ttl2, flush if rng.random() < 0.8 else (not flush)))
                    continue
                if seen and mode < 0.6:
                    base = rng.choice(seen)                   # something seen earlier: refresh / goodbye / re-cased
                    if rng.random() < 0.3:
                        base = recase(rng, base)
                else:
                    base = rng.choice(voc)
                ttl = rng.choice(TTLS) if rng.random() < 0.8 else rng.choice([0, 120])
                flush = rng.random() < 0.4 and base[0] != "PTR" or rng.random() < 0.05
                # never the same record with TTL 0 and TTL > 0 in one datagram (statement self-contradictory there)
                clash = [x for x in recs if identity(x[0]) == identity(base) and (x[1] == 0) != (ttl == 0)]
                if clash:
                    ttl = clash[0][1]
                recs.append((base, ttl, flush))
                seen.append(base)
            steps.append(("dgram", recs))
        elif r < 0.95 or not listeners:
            if rng.random() < 0.75:
                ms = rng.choice(CLOCK_STEPS)
            else:
                ms = rng.choice([rng.randrange(0, 3000), rng.randrange(0, 20000), rng.randrange(0, 5_000_000)])
            steps.append(("adv", ms))
        else:
            steps.append(("listener", rng.choice(["add", "remove", "add-churner", "remove-self-in-cb", "add-in-cb", "remove-other-in-cb", "add-again", "add-q-in-cb"])))
    return steps


def recase(rng: random.Random, rec: Tuple) -> Tuple:
    out = list(rec)
    which = rng.choice([1, 2]) if rec[0] == "PTR" else (rng.choice([1, 5]) if rec[0] == "SRV" else 1)
    if isinstance(out[which], str):
        out[which] = out[which].swapcase() if rng.random() < 0.5 else out[which].upper()
    return tuple(out)


def history_to_json(steps: List[Tuple]) -> List[Any]:
    out = []
    for s in steps:
        if s[0] == "dgram":
            out.append(["dgram", [[[x.hex() if isinstance(x, bytes) else x for x in r], ttl, flush] for r, ttl, flush in s[1]]])
        else:
            out.append(list(s))
    return out


def history_from_json(js: List[Any]) -> List[Tuple]:
    out: List[Tuple] = []
    for s in js:
        if s[0] == "dgram":
            recs = []
            for r, ttl, flush in s[1]:
                r = list(r)
                if r[0] in ("TXT", "A", "AAAA"):
                    r[2] = bytes.fromhex(r[2])
                elif r[0] == "HINFO":
                    r[2] = tuple(r[2])
                elif r[0] == "NSEC":
                    r[2] = (r[2][0], tuple(r[2][1]))
                recs.append((tuple(r), ttl, flush))
            out.append(("dgram", recs))
        else:
            out.append(tuple(s))
    return out


# ---------------------------------------------------------------------------------------
# spy listeners (C06)


def make_spy_class():
    from zeroconf import RecordUpdateListener

    class Spy(RecordUpdateListener):
        def __init__(self, name: str, harness: "Harness", behaviour: str = "plain"):
            self.name = name
            self.h = harness
            self.behaviour = behaviour
            self.calls: List[Tuple] = []

        def async_update_records(self, zc: Any, now: float, records: List[Any]) -> None:
            snap = self.h.snapshot_in_callback()
            self.calls.append(("update", now, [(r.new, r.old) for r in records], snap))
            self.h.churn(self, "update")

        def async_update_records_complete(self) -> None:
            snap = self.h.snapshot_in_callback()
            self.calls.append(("complete", None, None, snap))
            self.h.churn(self, "complete")

    return Spy


class Harness:
    """Runs one history against a real Zeroconf's record manager/cache with manual clock and purge control."""

    def __init__(self, res: Result, props: Sequence[str], seed: int = 0):
        self.res = res
        self.props = props
        self.seed = seed
        self.spies: List[Any] = []
        self.registered: List[Any] = []
        self.zc: Any = None
        self.replay: Dict[str, Any] = {}
        self.spy_counter = 0
        self.removed_during: Set[int] = set()
        self.added_during: Set[int] = set()
        self.added_with_question: Set[int] = set()

    def viol_for(self, prop: str):
        def viol(monitor: str, kind: str, detail: str, **sig: Any) -> None:
            if prop in self.props:
                self.res.violation(monitor, kind, detail, sig, self.replay)
        return viol

    def snapshot_in_callback(self) -> Dict[Tuple, Tuple[float, int]]:
        cache = self.zc.cache
        out: Dict[Tuple, Tuple[float, int]] = {}
        for lname in set(n.lower() for n in TYPE_NAME + INST + HOST):
            for r in cache.entries_with_name(lname):
                out[lib_identity(r)] = (r.created, r.ttl)
        return out

    def churn(self, spy: Any, phase: str) -> None:
        b = spy.behaviour
        rm = self.zc.record_manager
        if b == "remove-self-in-cb" and phase == "update":
            if spy in rm.listeners:   # removing an unregistered listener is API misuse (raises KeyError), not generated
                rm.async_remove_listener(spy)
            self.removed_during.add(id(spy))
            spy.behaviour = "gone"
        elif b == "add-in-cb" and phase == "update":
            s = self.new_spy("plain")
            rm.async_add_listener(s, None)
            self.added_during.add(id(s))
            spy.behaviour = "plain"
        elif b == "add-q-in-cb" and phase == "update":
            # what a browser or a lookup started from inside a callback does: a listener added together with a question (it is
            # handed the cached records that answer it at once)
            import zeroconf._dns as d
            s = self.new_spy("plain")
            rm.async_add_listener(s, d.DNSQuestion(TYPE_NAME[0], 12, 1))
            self.added_during.add(id(s))
            self.added_with_question.add(id(s))
            spy.behaviour = "plain"
        elif b == "remove-other-in-cb" and phase == "update":
            others = [x for x in self.registered_now() if x is not spy]
            if others:
                rm.async_remove_listener(others[0])
                self.removed_during.add(id(others[0]))
            spy.behaviour = "plain"

    def new_spy(self, behaviour: str) -> Any:
        Spy = make_spy_class()
        self.spy_counter += 1
        s = Spy("spy%d" % self.spy_counter, self, behaviour)
        self.spies.append(s)
        return s

    def registered_now(self) -> List[Any]:
        return [s for s in self.spies if s in self.zc.record_manager.listeners]

    def run(self, steps: List[Tuple], n_listeners: int = 1, loop_mode: bool = False) -> None:
        """loop_mode=False: the record manager and the engine purge are called directly under a manually set clock.
        loop_mode=True: datagrams go through AsyncListener.datagram_received and virtual time is advanced by running the
        event loop, so the engine's own 10 s timer performs the purges."""
        from zeroconf._protocol.incoming import DNSIncoming
        res = self.res
        res.evaluations += 1
        self.replay = {"history": history_to_json(steps), "n_listeners": n_listeners, "loop_mode": loop_mode}
        self.loop_mode = loop_mode
        v5 = self.viol_for("C05")
        v6 = self.viol_for("C06")
        model = CacheModel()
        with simnet.Sim(self.seed) as sim:
            async def boot():
                h = sim.net.add_host("H", "10.0.0.9")
                azc = await sim.start_host(h)
                return azc
            azc = sim.run(boot())
            zc = azc.zeroconf
            self.zc = zc
            cache = zc.cache
            engine = zc.engine
            rm = zc.record_manager
            t0 = sim.clock.ms()
            t_ms = int(round(t0))          # the harness keeps time in whole milliseconds so that purge boundaries are exact
            next_purge = t_ms + 10000      # the engine armed its timer at setup time
            # the timer was armed in _async_setup, a few loop iterations before now, all at the same virtual instant
            for _ in range(n_listeners):
                s = self.new_spy("plain")
                rm.async_add_listener(s, None)
            purged_once: Dict[int, int] = {}
            try:
                for si, step in enumerate(steps):
                    where = "step %d %s" % (si, step[0])
                    if step[0] == "adv":
                        target = t_ms + int(step[1])
                        t_ms = target
                        while next_purge <= target:
                            if loop_mode:
                                self.do_purge(sim, model, v5, v6, purged_once, where, at=float(next_purge))
                            else:
                                sim.clock.t = next_purge / 1000.0
                                self.do_purge(sim, model, v5, v6, purged_once, where)
                            next_purge += 10000
                        if loop_mode:
                            sim.run(sim.sleep_until_ms(target))
                        else:
                            sim.clock.t = target / 1000.0
                        res.cls("adv", bucket_ms(step[1]))
                    elif step[0] == "listener":
                        self.listener_step(step[1])
                    else:
                        now = sim.clock.ms()
                        recs = step[1]
                        data = build_datagram(recs, id_=si & 0xFFFF, compress=("full" if si % 2 else "none"))
                        pre = model.snapshot()
                        updates, mid, final = model.datagram(now, recs)
                        at_start = list(self.registered_now())
                        for s in self.spies:
                            s.calls.clear()
                        self.removed_during.clear()
                        self.added_during.clear()
                        pre_objs = {lib_identity(r): r for lname in set(n.lower() for n in TYPE_NAME + INST + HOST)
                                    for r in cache.entries_with_name(lname)}
                        if loop_mode:
                            sim.net.inject_now(sim.net.hosts[0], data, ("10.0.0.77", 5353))
                        else:
                            msg = DNSIncoming(data, ("10.0.0.77", 5353), None, now)
                            rm.async_updates_from_response(msg)
                        self.check_listener_contract(at_start, updates, pre, mid, final, pre_objs, now, recs, v6, where)
                        self.classify_dgram(recs, pre, now)
                    # after every step: all lookup paths vs the model (C05), final state (C06)
                    view = observe_cache(cache, res, v5, where)
                    structural_invariant(cache, v5, where, res)
                    res.mon("c05.model")
                    want = model.snapshot()
                    if view != want:
                        v5("c05.model", "cache_differs_from_model", "%s: %s" % (where, diff_states(want, view or {})),
                           diff=diff_kind(want, view or {}))
                        if step[0] == "dgram":
                            res.mon("c06.final_state")
                            v6("c06.final_state", "final_state_differs", "%s: %s" % (where, diff_states(want, view or {})),
                               diff=diff_kind(want, view or {}))
                        # resynchronise is not possible: stop this history at the first divergence
                        break
                    elif step[0] == "dgram":
                        res.mon("c06.final_state")
            except Exception as e:  # harness or library crashed: report as such
                v5("c05.model", "exception", "exception while running history: %r\n%s" % (e, tb()), exc_type=type(e).__name__)
                v6("c06.contract", "exception", "exception while running history: %r\n%s" % (e, tb()), exc_type=type(e).__name__)
            if sim.net.escapes:
                v5("c05.model", "loop_exception", repr(sim.net.escapes[0])[:600])
        if res.evaluations % 53 == 1:
            res.sample({"history": history_to_json(steps)[:6], "n_steps": len(steps)})

    def listener_step(self, what: str) -> None:
        rm = self.zc.record_manager
        if what == "add" or what.endswith("-in-cb") or what == "add-churner":
            behaviour = what if what.endswith("-in-cb") else "plain"
            if len(self.registered_now()) < 5:
                s = self.new_spy(behaviour)
                rm.async_add_listener(s, None)
        elif what == "remove":
            reg = self.registered_now()
            if reg:
                rm.async_remove_listener(reg[0])
        elif what == "add-again":
            # registering a listener that is registered already changes nothing: it is still called exactly once
            reg = self.registered_now()
            if reg:
                rm.async_add_listener(reg[-1], None)
        self.res.cls("listener", what)

    def do_purge(self, sim: Any, model: CacheModel, v5, v6, purged_once: Dict[int, int], where: str, at: Optional[float] = None) -> None:
        now = sim.clock.ms() if at is None else at
        for s in self.spies:
            s.calls.clear()
        want_gone = sorted(model.purge(now))
        at_start = list(self.registered_now())
        self.removed_during.clear()
        self.added_during.clear()
        if at is None:
            self.zc.engine._async_cache_cleanup()
        else:
            # let the engine's own timer fire at `at` (our wake-up is 1 microsecond later so the order is defined)
            sim.run(sim.sleep_until_ms(at + 0.001))
        self.res.mon("c05.purge")
        for s in at_start:
            if id(s) in self.removed_during:
                continue
            ups = [c for c in s.calls if c[0] == "update"]
            comps = [c for c in s.calls if c[0] == "complete"]
            if len(ups) != 1 or len(comps) != 1:
                v5("c05.purge", "purge_listener_calls", "%s purge at %s: listener got %d update / %d complete calls" % (where, now, len(ups), len(comps)))
                continue
            pairs = ups[0][2]
            got = sorted(lib_identity(n) for n, o in pairs)
            if got != want_gone:
                v5("c05.purge", "purge_set_differs", "%s purge at %.0f: reported %r expected %r" % (where, now, got, want_gone),
                   diff=("early" if len(got) > len(want_gone) else "late"))
            for n, o in pairs:
                if n is not o:
                    v5("c05.purge", "purge_pair_not_same_object", "purge reported (new, old) that are different objects")
        if want_gone:
            self.res.cls("purge", "removed=%d" % min(len(want_gone), 3))

    def check_listener_contract(self, at_start, updates, pre, mid, final, pre_objs, now, recs, v6, where) -> None:
        res = self.res
        constrained = [s for s in at_start if id(s) not in self.removed_during]
        for s in constrained:
            res.mon("c06.contract")
            ups = [c for c in s.calls if c[0] == "update"]
            comps = [c for c in s.calls if c[0] == "complete"]
            if not updates:
                if s.calls:
                    v6("c06.contract", "called_without_updates", "%s: listener called although no record was new/refreshed/withdrawn" % where)
                continue
            if len(ups) != 1 or len(comps) != 1:
                v6("c06.contract", "call_count", "%s: %d update calls and %d complete calls (expected 1 and 1)" % (where, len(ups), len(comps)))
                continue
            if s.calls.index(ups[0]) > s.calls.index(comps[0]):
                v6("c06.contract", "call_order", "%s: complete before update" % where)
            _, cb_now, pairs, snap1 = ups[0]
            if cb_now != now:
                v6("c06.contract", "now_argument", "%s: now=%r expected %r" % (where, cb_now, now))
            got = [(lib_identity(n), n.ttl, o is not None) for n, o in pairs]
            if got != updates:
                v6("c06.contract", "update_list_differs", "%s: got %r expected %r" % (where, got[:6], updates[:6]),
                   diff=("length" if len(got) != len(updates) else "content"))
            else:
                for (n, o), (ident, ttl, had) in zip(pairs, updates):
                    if had and o is not pre_objs.get(ident):
                        v6("c06.contract", "old_is_not_cached_object", "%s: previous for %r is not the cached object" % (where, ident))
                    if n.ttl > 0 and n.created != now:
                        v6("c06.contract", "new_created_not_arrival", "%s: new.created=%r arrival %r" % (where, n.created, now))
            res.mon("c06.mid_state")
            if snap1 != mid:
                v6("c06.mid_state", "first_callback_state", "%s: inside async_update_records: %s" % (where, diff_states(mid, snap1)),
                   diff=diff_kind(mid, snap1))
            snap2 = comps[0][3]
            if snap2 != final:
                v6("c06.mid_state", "second_callback_state", "%s: inside async_update_records_complete: %s" % (where, diff_states(final, snap2)),
                   diff=diff_kind(final, snap2))
        # listeners whose registration changed inside the first round (from a listener's async_update_records): the second
        # round goes to whoever is registered when it happens - one removed meanwhile is not called again, one added
        # meanwhile is called exactly once
        if updates:
            for s in self.spies:
                sid = id(s)
                if (sid in self.removed_during) == (sid in self.added_during):
                    continue
                comps = [c for c in s.calls if c[0] == "complete"]
                res.mon("c06.contract.churn")
                if sid in self.removed_during and comps:
                    v6("c06.contract", "complete_after_removal", "%s: a listener removed during the first round of this datagram got %d "
                       "async_update_records_complete call(s) after async_remove_listener had returned" % (where, len(comps)), who="removed")
                replayed = 1 if (sid in self.added_with_question and [c for c in s.calls if c[0] == "update"]) else 0
                if sid in self.added_during and len(comps) != 1 + replayed:
                    v6("c06.contract", "added_listener_not_completed", "%s: a listener registered during the first round of this datagram got %d "
                       "async_update_records_complete calls (expected %d: it is registered when the second round happens)" % (where, len(comps), 1 + replayed), who="added")
        res.cls("listeners", "n=%d" % len(at_start), "removed=%d" % len(self.removed_during), "added=%d" % len(self.added_during))

    def classify_dgram(self, recs, pre, now) -> None:
        res = self.res
        seen_in: Set[Tuple] = set()
        for r, ttl, flush in recs:
            ident = identity(r)
            if ident in seen_in:
                rel = "dup-in-datagram"
            elif ident in pre:
                age = now - pre[ident][0]
                agebucket = "<1s" if age < 1000 else ("=1s" if age == 1000 else ">1s")
                rel = ("goodbye-hit" if ttl == 0 else "refresh") + agebucket
            else:
                rel = "goodbye-miss" if ttl == 0 else "new"
            seen_in.add(ident)
            flush_hit = False
            if flush:
                for k, (created, _) in pre.items():
                    if k[0] == r[0] and k[1] == r[1].lower() and k != ident:
                        d = now - created
                        flush_hit = True
                        res.cls("flush-other", "<1s" if d < 1000 else ("=1s" if d == 1000 else ">1s"))
            res.cls("rec", r[0], rel, "flush" if flush else "noflush", "ttl%s" % ("0" if ttl == 0 else ("<floor" if ttl < PTR_FLOOR else ">=floor")),
                    "hit" if flush_hit else "-")


def bucket_ms(ms: int) -> str:
    for lim, nm in ((0, "0"), (999, "<1s"), (1000, "=1s"), (1001, "1s+1"), (9999, "<10s"), (10000, "=10s"), (10001, "10s+1"), (120000, "<=120s"), (1125000, "<=floor")):
        if ms <= lim:
            return nm
    return "long"


def diff_states(want: Dict, got: Dict) -> str:
    out = []
    for k in sorted(set(want) | set(got), key=repr):
        if want.get(k) != got.get(k):
            out.append("%r: model %r library %r" % (k, want.get(k), got.get(k)))
    return "; ".join(out[:4])


def diff_kind(want: Dict, got: Dict) -> str:
    missing = [k for k in want if k not in got]
    extra = [k for k in got if k not in want]
    if missing and not extra:
        return "missing"
    if extra and not missing:
        return "extra"
    if missing and extra:
        return "missing+extra"
    return "created_or_ttl"
