"""C12 - reply timing: jitter, aggregation, one-second protection, truncated queries."""
from __future__ import annotations

import random
from typing import Any, Dict, List, Optional, Set, Tuple

from .. import respond as R
from .. import simnet, wire
from ..common import Result, rng_for, tb
from ..models import ENUM_NAME, ResponderModel, Svc
from .c11 import probe_obj

PROPERTY_ID = "C12"
LEVEL = "exploration"
RULE = ("A real Zeroconf with 1..3 services (TTL >= 10 s; loop-back delay of its own multicasts 0/1/50 ms; both socket layouts) "
        "receives 1..6 QM queries from port 5353 with inter-arrival gaps from {0,20,120,200,500,999,1000,1001,1120} ms and random, "
        "starting 0..5 s after the last announcement: PTR/SRV/TXT/A/AAAA/ANY/enumeration, single- and multi-question, probes, and "
        "truncated (TC) trains of 1..4 packets with identical or differing questions/known answers from 1..2 sources, ending with "
        "or without a non-TC packet. Virtual time; the library's jitter is seeded per case. Each query creates obligations "
        "(record, class) from the reference model, with the record's last multicast sighting taken from the host's own looped-"
        "back transmissions: immediate (same instant), aggregated (+20..+500 ms), protected (>= sighting+1000 ms, <= arrival+"
        "1200 ms), TC (released 400..500 ms after the last packet, or at a non-TC packet). D1: every obligation is served in its "
        "window; D2: every multicast answer is justified by an obligation's window (so nothing is sent early, during a TC hold, "
        "or although listed as known answer); D4: no record twice in one datagram; per shard the delays of lone-query answers must "
        "spread over 20..120 ms (a random draw, not a constant). Trains also come back to back from one source "
        "(first completed by its final packet, second left to its timer). Distinct = (class, queue state, gap bucket, TC "
        "shape, loop-back delay) classes.")
ASSUMPTIONS = ["service TTLs >= 10 s (below 4 s the QU rule and the one-second rule contradict each other)",
               "1 ms slack on every window for float rounding"]

GAPS = [0, 20, 120, 200, 500, 999, 1000, 1001, 1120]
IMMEDIATE_TYPES = {47, 33, 1, 28}
EPS = 1.0


def floors(tier):
    q = tier == "quick"
    return {"c12.served": 20000 if q else 2000000, "c12.justified": 20000 if q else 2000000, "c12.no_duplicate": 20000 if q else 2000000,
            "c12.additionals": 10000 if q else 1000000, "c12.jitter": 8 if q else 32}


def plan(tier, seed):
    if tier == "quick":
        n, per = 16, 1300
    else:
        n, per = 64, 24000
    return [{"seed": seed, "shard": i, "per": per, "tier": tier} for i in range(n)]


def gen_scenario(rng: random.Random) -> Dict[str, Any]:
    nsvc = rng.choice([1, 2, 3])
    svcs = []
    hostnames = [R.spell(rng, "host%d" % k) + ".local." for k in range(nsvc)]
    for i in range(nsvc):
        s = R.gen_service(rng, type_=rng.choice(["_http._tcp.local.", "_ipp._tcp.local."]), min_ttl=10)
        s.name = "svc%d.%s" % (i, s.type)
        s.server = hostnames[i if rng.random() < 0.7 else 0]
        svcs.append(s)
    start_wait = rng.choice([0, 500, 990, 1000, 1010, 2000, 5000])
    nq = rng.choice([1, 1, 2, 2, 3, 4, 6])
    t = 0.0
    arrivals = []
    for qi in range(nq):
        target = rng.choice(svcs)
        kind = rng.choice(["ptr", "ptr", "srv", "a", "txt", "any", "multi", "probe", "tc", "tc", "enum", "aaaa"])
        src = "10.0.0.%d" % rng.choice([60, 61])
        if kind == "tc" and rng.random() < 0.3:
            # two trains back to back from one source: the first is completed by its final (non-TC) packet well inside the hold,
            # the second starts before the first one's hold timer would have fired and is left to its own timer
            pk = []
            tt = t
            n1 = rng.choice([1, 2])
            for k in range(n1 + 1):
                last = k == n1
                qs = questions_for(rng, rng.choice(["ptr", "multi", "srv", "any"]), target) if (k == 0 or rng.random() < 0.5) else []
                pk.append({"t": tt, "questions": qs, "known_n": rng.choice([0, 0, 1, 3]), "tc": not last, "src": src, "aid": "%d.%d" % (qi, k)})
                if not last:
                    tt += rng.choice([0, 10, 50, 100, 150])
            tt += rng.choice([1, 20, 100, 200, 300])
            target2 = rng.choice(svcs)
            for k in range(rng.choice([1, 2])):
                qs = questions_for(rng, rng.choice(["ptr", "multi", "srv", "any"]), target2) if (k == 0 or rng.random() < 0.5) else []
                pk.append({"t": tt, "questions": qs, "known_n": rng.choice([0, 1, 3]), "tc": True, "src": src, "aid": "%d.b%d" % (qi, k)})
                tt += rng.choice([10, 100, 300])
            arrivals.extend(pk)
            t = tt + 600
        elif kind == "tc":
            npk = rng.choice([1, 2, 3, 4])
            ends_plain = rng.random() < 0.4
            pk = []
            tt = t
            for k in range(npk):
                last = k == npk - 1
                qs = questions_for(rng, rng.choice(["ptr", "multi", "srv", "any"]), target) if (k == 0 or rng.random() < 0.5) else []
                known_n = rng.choice([0, 0, 1, 3])
                pk.append({"t": tt, "questions": qs, "known_n": known_n, "tc": not (last and ends_plain), "src": src if rng.random() < 0.9 else "10.0.0.62",
                           "aid": "%d.%d" % (qi, k)})
                if rng.random() < 0.15:
                    pk.append(dict(pk[-1], t=tt + 5.0, copy_of=pk[-1]["aid"], aid=pk[-1]["aid"] + "c"))
                tt += rng.choice([0, 10, 100, 300, 399, 400, 401, 450, 499])
            arrivals.extend(pk)
            t = tt
        else:
            arrivals.append({"t": t, "questions": questions_for(rng, kind, target), "known_n": 0, "tc": False, "src": src, "probe": kind == "probe"})
        t += rng.choice(GAPS) if rng.random() < 0.75 else rng.randrange(0, 1500)
    arrivals.sort(key=lambda a: a["t"])
    return {"svcs": svcs, "start_wait": start_wait, "arrivals": arrivals, "self_delay": rng.choice([0.0, 0.0, 1.0, 50.0]),
            "layout": rng.choice(["single", "single", "split"])}


def questions_for(rng: random.Random, kind: str, s: Svc) -> List[Tuple[str, int, bool]]:
    if kind in ("ptr", "probe"):
        return [(s.type, 12, False)]
    if kind == "srv":
        return [(s.name, 33, False)]
    if kind == "txt":
        return [(s.name, 16, False)]
    if kind == "a":
        return [(s.server, 1, False)]
    if kind == "aaaa":
        return [(s.server, 28, False)]
    if kind == "any":
        return [(rng.choice([s.type, s.name]), 255, False)]
    if kind == "enum":
        return [(ENUM_NAME, 12, False)]
    return [(s.type, 12, False), (s.name, 33, False)] + ([(s.server, 1, False)] if rng.random() < 0.5 else [])


class Obligation:
    __slots__ = ("rec", "serve_lo", "serve_hi", "just_lo", "just_hi", "cls", "why")

    def __init__(self, rec: Tuple, serve_lo: float, serve_hi: float, just_lo: float, just_hi: float, cls: str, why: str):
        self.rec, self.serve_lo, self.serve_hi, self.just_lo, self.just_hi, self.cls, self.why = rec, serve_lo, serve_hi, just_lo, just_hi, cls, why


def run_scenario(res: Result, seed: int) -> None:
    rng = random.Random(seed)
    sc = gen_scenario(rng)
    res.evaluations += 1
    svcs: List[Svc] = sc["svcs"]
    model = ResponderModel()
    desc = {"svcs": [s.brief() for s in svcs], "start_wait": sc["start_wait"], "arrivals": sc["arrivals"], "self_delay": sc["self_delay"], "layout": sc["layout"]}

    def viol(monitor: str, kind: str, detail: str, **sig: Any) -> None:
        res.violation(monitor, kind, detail, dict(sig, self_delay=sc["self_delay"]), {"seed": seed, "scenario": desc})

    policy = simnet.Policy(random.Random(seed ^ 77), self_delay_ms=sc["self_delay"])
    out: Dict[str, Any] = {}
    with simnet.Sim(seed & 0xFFFF, policy=policy) as sim:
        async def main():
            host = sim.net.add_host("H", "10.0.0.1", "fe80::1" if sc["layout"] == "split" else None, layout=sc["layout"])
            azc = await sim.start_host(host)
            zc = azc.zeroconf
            tasks = []
            for s in svcs:
                tasks.append(await zc.async_register_service(R.make_info(s), cooperating_responders=True))
                model.register(s)
            for t in tasks:
                await t
            await sim.sleep_ms(sc["start_wait"])
            universe0 = model.all_idents()
            probes = {ident: probe_obj(ident) for ident in universe0}

            def snap() -> Dict[Tuple, float]:
                o: Dict[Tuple, float] = {}
                for ident, p in probes.items():
                    rec = R.last_seen_copy(zc.cache, p)
                    if rec is not None:
                        o[ident] = rec.created
                return o

            out["before"] = []
            out["after"] = [(sim.now_ms(), snap())]
            sim.net.on_deliver = lambda rec: out["before"].append((rec["t"], rec["data"], snap(), rec["src"][0].replace("::ffff:", ""))) if rec["tx"] < 0 else None
            sim.net.after_deliver = lambda rec: out["after"].append((rec["t"], snap()))
            T0 = sim.now_ms()
            out["T0"] = T0
            out["mark"] = len(sim.net.trace)
            universe = model.all_idents()
            sent: List[Dict[str, Any]] = []
            for i, a in enumerate(sc["arrivals"]):
                known = []
                if "copy_of" in a:
                    orig_a = [b for b in sc["arrivals"] if b.get("aid") == a["copy_of"] and "_data" in b]
                    if orig_a:
                        a["_known"], a["_data"] = orig_a[0]["_known"], orig_a[0]["_data"]
                        sim.net.inject(host, a["_data"], (a["src"], 5353), delay_ms=a["t"])
                        continue
                if a["known_n"]:
                    exp, _, _ = model.expected([(n, t) for n, t, _ in (a["questions"] or sc["arrivals"][0]["questions"])], {})
                    cands = sorted(exp, key=repr) or sorted(universe, key=repr)
                    for ident in cands[: a["known_n"]]:
                        ttls = universe.get(ident) or {120}
                        known.append((ident, max(ttls) if rng.random() < 0.8 else max(ttls) // 2))
                auth = [(("PTR", svcs[0].type, ("other." + svcs[0].type,)), 120)] if a.get("probe") else []
                data = R.build_query(a["questions"], known, id_=0 if not a.get("dup") else 0, tc=a["tc"], authorities=auth)
                a["_known"] = known
                a["_data"] = data
                sim.net.inject(host, data, (a["src"], 5353), delay_ms=a["t"])
            await sim.sleep_ms(sc["arrivals"][-1]["t"] + 2600)
            out["end"] = sim.now_ms()
            await azc.async_close()

        try:
            sim.run(main())
        except Exception as e:
            viol("c12.served", "exception", "exception during scenario: %r\n%s" % (e, tb()), exc_type=type(e).__name__)
            return
        for esc in sim.net.escapes[:1]:
            viol("c12.served", "loop_exception", repr(esc)[:800])
        analyse(res, sim, sc, model, out, viol)
    if res.evaluations % 53 == 1:
        res.sample({k: v for k, v in desc.items() if k != "arrivals"} | {"arrivals": [{kk: vv for kk, vv in a.items() if not kk.startswith("_")} for a in sc["arrivals"][:4]]})


def analyse(res: Result, sim: simnet.Sim, sc: Dict[str, Any], model: ResponderModel, out: Dict[str, Any], viol) -> None:
    T0 = out["T0"]
    universe = model.all_idents()
    # ---- transmissions (one socket in split layouts) and sightings (own multicasts delivered back to the host)
    entries = [e for e in sim.net.trace[out["mark"]:] if e["mcast"]]
    fds = sorted({e["fd"] for e in entries})
    tx: List[Tuple[float, wire.Msg]] = []
    for e in entries:
        if e["fd"] != fds[0]:
            continue
        m = wire.parse(e["data"], strict=True)
        if m.is_response and e["t"] < out["end"] - 1e-6:
            tx.append((e["t"], m))
    def sighting_before_query(ident: Tuple, at: float, data: bytes) -> Optional[float]:
        """cache 'created' of the record just before that query datagram was processed"""
        for t, d, snapshot, _src in out["before"]:
            if abs(t - at) < 1e-6 and d == data:
                return snapshot.get(ident)
        return None

    def sighting_at(ident: Tuple, at: float) -> Optional[float]:
        """cache 'created' of the record after the last datagram processed at or before `at`"""
        best = None
        for t, snapshot in out["after"]:
            if t <= at + 1e-9:
                best = snapshot.get(ident)
        return best

    # ---- obligations
    obligations: List[Obligation] = []
    arrivals = sc["arrivals"]
    pending_tc: Dict[str, List[Dict[str, Any]]] = {}

    def owed(packets: List[Dict[str, Any]]) -> Tuple[Dict[Tuple, Any], bool]:
        qs: List[Tuple[str, int]] = []
        known: Dict[Tuple, int] = {}
        probe = False
        for p in packets:
            qs += [(n, t) for n, t, _ in p["questions"]]
            if p.get("probe"):
                probe = True
            else:
                for ident, ttl in p["_known"]:
                    known[ident] = ttl
        # known answers are taken from every packet of the train except those that carry an authority section (probes)
        exp, _, exact = model.expected(qs, known)
        return exp, exact

    def add_obligations(packets: List[Dict[str, Any]], r_lo: float, r_hi: float, recency_now: float, tcshape: str) -> None:
        exp, exact = owed(packets)
        first_q = packets[0]["questions"]
        probe = any(p.get("probe") for p in packets)
        for ident in exp:
            # recency as the library evaluates it: against the arrival time of the last packet, with the cache as of release
            if tcshape == "-" or tcshape.endswith("+plain"):
                s_lo = s_hi = sighting_before_query(ident, r_lo, packets[-1]["_data"])
            else:
                s_lo, s_hi = sighting_at(ident, r_lo), sighting_at(ident, r_hi)
            classes = set()
            for s in {s_lo, s_hi}:
                if probe:
                    classes.add("immediate")
                elif s is not None and recency_now - s < 1000.0:
                    classes.add("protected")
                elif len(first_q) == 1 and first_q[0][1] in IMMEDIATE_TYPES:
                    classes.add("immediate")
                else:
                    classes.add("aggregated")
            # a sighting within 1 ms of the boundary may be classified either way
            for s in {s_lo, s_hi}:
                if s is not None and abs((recency_now - s) - 1000.0) <= EPS and not probe:
                    classes.update({"protected", "aggregated" if not (len(first_q) == 1 and first_q[0][1] in IMMEDIATE_TYPES) else "immediate"})
            serve_lo, serve_hi, just_lo, just_hi = r_lo, r_lo, float("inf"), float("-inf")
            for c in classes:
                if c == "immediate":
                    lo, hi, jl, jh = r_lo, r_hi, r_lo, r_hi
                elif c == "aggregated":
                    lo, hi, jl, jh = r_lo, r_hi + 500.0, r_lo + 20.0, r_hi + 500.0
                    if tcshape != "-":
                        # a released train is queued with the arrival time of its FIRST packet, so its 20..120 ms jitter has
                        # already elapsed: it may leave with any group that is pending at the release instant
                        jl = r_lo
                else:
                    s = s_hi if s_hi is not None else s_lo
                    lo, hi, jl, jh = r_lo, r_hi + 1200.0, max(r_lo + 20.0, (s or r_lo) + 1000.0), r_hi + 1200.0
                    if tcshape != "-":
                        # queue entries of a released train are stamped with the first packet's arrival time.  A sighting
                        # *before* the first packet arrived is unambiguously "before the query arrived": one second after
                        # it is owed.  A sighting between the first packet and the release is not covered by the wording
                        # (the library then counts the second from the first packet): accepted from the release on.
                        t_first = min(T0 + p["t"] for p in packets)
                        jl = max(r_lo, (s + 1000.0) if (s is not None and s <= t_first + EPS) else r_lo)
                serve_hi = max(serve_hi, hi)
                just_lo, just_hi = min(just_lo, jl), max(just_hi, jh)
            obligations.append(Obligation(ident, serve_lo, serve_hi, just_lo, just_hi, "+".join(sorted(classes)), tcshape))

    # duplicate-datagram guard of the listener: identical bytes as the previous datagram processed on that socket, from the
    # same sender, less than 1000 ms ago (no QU question) are ignored - such arrivals create no obligation (that rule itself is C16's subject)
    supp_flags: List[bool] = []      # aligned with out["before"] (the injected datagrams in processing order)
    per_fd: Dict[int, Tuple[bytes, float, Tuple]] = {}
    for d in sim.net.deliveries:
        if d["t"] < T0 - 1e-6:
            continue
        last = per_fd.get(d["fd"])
        src2 = (d["src"][0], d["src"][1])
        # (same bytes from the same sender: a second querier sending identical bytes is owed its own answer - C11)
        dup = last is not None and last[0] == d["data"] and d["t"] - 1000.0 < last[1] and last[2] == src2
        if d["tx"] < 0:
            supp_flags.append(dup)
        if not dup:
            per_fd[d["fd"]] = (d["data"], d["t"], src2)
    # arrivals in the order in which the host actually processed them (same-instant deliveries have no defined order)
    ordered: List[Dict[str, Any]] = []
    used: Set[int] = set()
    for pos, (t, d, _snapshot, bsrc) in enumerate(out["before"]):
        for k, a in enumerate(arrivals):
            if k not in used and abs(T0 + a["t"] - t) < 1e-6 and a.get("_data") == d and a["src"] == bsrc:
                used.add(k)
                a["_suppressed"] = supp_flags[pos] if pos < len(supp_flags) else False
                ordered.append(a)
                break
    if len(ordered) != len(arrivals):
        res.obs("arrivals_not_all_delivered")
    arrivals = ordered
    idx = 0
    n = len(arrivals)
    while idx < n:
        a = arrivals[idx]
        at = T0 + a["t"]
        src = a["src"]
        if a.get("_suppressed"):
            res.obs("arrival_suppressed_as_duplicate_datagram")
            idx += 1
            continue
        if a["tc"]:
            closed = out.setdefault("closed_trains", {}).get(src)
            if closed is not None and at < closed[1] - EPS and a["_data"] in closed[0]:
                res.obs("tc_packet_duplicate_of_deferred_ignored")
                idx += 1
                continue
            lst = pending_tc.setdefault(src, [])
            if not any(p["_data"] == a["_data"] for p in lst):
                lst.append(a)
                a["_last"] = at
            # the hold ends 400..500 ms after the last *new* TC packet from this source unless a non-TC packet arrives first
            later_same = [b for b in arrivals[idx + 1:] if b["src"] == src and not b.get("_suppressed")
                          and not (b["tc"] and any(p["_data"] == b["_data"] for p in lst))]
            last_time = max(p.get("_last", T0 + p["t"]) for p in lst)
            nxt = later_same[0] if later_same else None
            racing = [b for b in arrivals[idx + 1:] if b["src"] == src and last_time + 400.0 - EPS <= T0 + b["t"] <= last_time + 500.0 + EPS]
            if racing and (nxt is None or T0 + nxt["t"] > last_time + 400.0 - EPS):
                # a packet from that source lands inside the 400..500 ms window in which the hold timer fires: whether it still
                # joins (or is ignored as a duplicate of) the held train depends on the jitter - not judged
                res.obs("tc_train_races_with_timer_not_judged")
                out["ambiguous"] = True
                pending_tc[src] = []
                idx += 1
                continue
            if nxt is None or T0 + nxt["t"] > last_time + 500.0 + EPS:
                add_obligations(list(lst), last_time + 400.0, last_time + 500.0, last_time, "tc%d" % len(lst))
                out["closed_trains"][src] = ([p["_data"] for p in lst], last_time + 400.0)
                pending_tc[src] = []
            elif T0 + nxt["t"] >= last_time + 400.0 - EPS:
                # the next packet races with the timer: outcome depends on the jitter; skip judging this train (counted)
                res.obs("tc_train_races_with_timer_not_judged")
                pending_tc[src] = []
                out["ambiguous"] = True
        else:
            lst = pending_tc.pop(src, [])
            packets = lst + [a]
            add_obligations(packets, at, at, at, "tc%d+plain" % len(lst) if lst else "-")
        idx += 1
    if out.get("ambiguous"):
        return
    # ---- D4 and collection of answer transmissions
    answers_tx: List[Tuple[float, Tuple]] = []
    for t, m in tx:
        res.mon("c12.no_duplicate")
        ids = [R.ident_of_wire(r) for r in m.answers + m.additionals]
        if len(set(ids)) != len(ids):
            viol("c12.no_duplicate", "record_twice_in_datagram", "datagram at +%.0f ms carries a record twice: %r" % (t - T0, [i for i in ids if ids.count(i) > 1][:2]))
        for r in m.answers:
            if r.ttl > 0:
                answers_tx.append((t, R.ident_of_wire(r)))
    # ---- D1
    for o in obligations:
        res.mon("c12.served")
        ok = any(ident == o.rec and o.serve_lo - EPS <= t <= o.serve_hi + EPS for t, ident in answers_tx)
        if not ok:
            when = [round(t - T0, 1) for t, ident in answers_tx if ident == o.rec]
            viol("c12.served", "answer_not_sent_in_window", "%r owed (%s, %s) in [+%.0f, +%.0f] ms but multicast at %r" % (
                o.rec, o.cls, o.why, o.serve_lo - T0, o.serve_hi - T0, when), cls=o.cls, tc=o.why != "-")
        res.cls("obl", o.cls, o.why, o.rec[0])
    # ---- jitter sample: a lone ordinary query (nothing else pending, nothing protected) - the delay of its aggregated answer is
    #      the library's random 20..120 ms draw; the samples of a shard are judged together in run_shard
    if len(arrivals) == 1 and not arrivals[0].get("tc") and not arrivals[0].get("probe"):
        for o in obligations:
            if o.cls == "aggregated" and o.why == "-":
                ts = [t for t, ident in answers_tx if ident == o.rec and t >= o.serve_lo - EPS]
                if ts:
                    JITTER.append(min(ts) - o.serve_lo)
                break
    # ---- D2
    for t, ident in answers_tx:
        res.mon("c12.justified")
        ok = any(o.rec == ident and o.just_lo - EPS <= t <= o.just_hi + EPS for o in obligations)
        if not ok:
            cands = [(round(o.just_lo - T0, 1), round(o.just_hi - T0, 1), o.cls, o.why) for o in obligations if o.rec == ident]
            viol("c12.justified", "unjustified_transmission", "%r multicast at +%.1f ms; obligations for it allow %r" % (ident, t - T0, cands[:4]),
                 owed=bool(cands), cls=(cands[0][2] if cands else "none"))
    # ---- D5: the one-second rule speaks of a record being multicast again, in whatever section.  Sightings are taken from what
    #      was delivered to the host (its own looped-back multicasts and the peers' responses), not from its cache.
    seen: Dict[Tuple, List[float]] = {}
    guard: Dict[int, Tuple[bytes, float, Tuple]] = {}
    for d in sim.net.deliveries:
        if d["host"] != "H":
            continue
        # a datagram the duplicate guard drops (same bytes, same sender, same socket, less than a second after the previous
        # one - e.g. the host's own second and third announcement) is not "seen" by the instance
        g = guard.get(d["fd"])
        src2 = (d["src"][0], d["src"][1])
        if g is not None and g[0] == d["data"] and d["t"] - 1000.0 < g[1] and g[2] == src2:
            continue
        guard[d["fd"]] = (d["data"], d["t"], src2)
        dm, _ = wire.try_parse(d["data"], strict=False)
        if dm is None or not dm.is_response:
            continue
        for r in dm.answers + dm.additionals:
            if r.ttl > 0:
                seen.setdefault(R.ident_of_wire(r), []).append(d["t"])
    probe_instants = [T0 + a["t"] for a in arrivals if a.get("probe")]
    for t, m in tx:
        if any(abs(t - p) < EPS for p in probe_instants):
            continue                          # probe replies are excepted
        if not any(a.get("tc") for a in arrivals):
            # cross-check of D2 that does not go through the host's cache (for truncated trains the wording is ambiguous about
            # sightings between the first packet and the release, see the obligations above - they are left to D2)
            for r in m.answers:
                ident = R.ident_of_wire(r)
                # the queries that can have caused this transmission, and for each of them a sighting less than a second
                # before IT arrived that is still less than a second old now
                causes = sorted({o.serve_lo for o in obligations if o.rec == ident and o.serve_lo - EPS <= t <= o.just_hi + EPS})
                if r.ttl <= 0 or not causes:
                    continue
                hit = [max([s_ for s_ in seen.get(ident, []) if s_ < a - 1e-6 and a - s_ < 1000.0 - EPS and t < s_ + 1000.0 - EPS] or [None]) for a in causes]
                if all(h is not None for h in hit):
                    viol("c12.justified", "record_multicast_again_within_one_second", "%r multicast at +%.1f ms as an answer to the query that arrived at +%.1f ms, "
                         "%.0f ms after the host saw it multicast (+%.1f ms)" % (ident, t - T0, causes[-1] - T0, t - hit[-1], hit[-1] - T0),
                         mechanism="answer_section", kind_of_record=ident[0])
                    break
        res.mon("c12.additionals")
        for r in m.additionals:
            ident = R.ident_of_wire(r)
            recent = [s_ for s_ in seen.get(ident, []) if s_ < t - 1e-6 and t - s_ < 1000.0 - EPS]
            if r.ttl > 0 and recent:
                viol("c12.justified", "record_multicast_again_within_one_second", "%r multicast at +%.1f ms as an additional, %.0f ms after the host saw it multicast" % (
                    ident, t - T0, t - max(recent)), mechanism="additional_section")
                break
    gaps = sorted({gap_bucket(arrivals[i + 1]["t"] - arrivals[i]["t"]) for i in range(len(arrivals) - 1)})
    res.cls("scenario", "n=%d" % len(arrivals), ",".join(gaps)[:40], "wait=%d" % sc["start_wait"], "self=%g" % sc["self_delay"], sc["layout"])


def gap_bucket(g: float) -> str:
    for lim, nm in ((0, "0"), (20, "<=20"), (120, "<=120"), (500, "<=500"), (998, "<999"), (1001, "~1000"), (1120, "<=1120")):
        if g <= lim:
            return nm
    return ">1120"


JITTER: List[float] = []


def judge_jitter(res: Result, seed: int) -> None:
    """'a random 20-120 ms': over a shard's lone-query samples the delays must spread over the interval, not sit at one value or
    in a corner of it (uniform draws: the chance of 40 samples all above 60 ms is about 1e-9)."""
    res.extra["jitter_samples"] = res.extra.get("jitter_samples", 0) + len(JITTER)
    if len(JITTER) < 40:
        res.obs("jitter_sample_too_small_to_judge")
        return
    res.mon("c12.jitter")
    lo, hi, distinct = min(JITTER), max(JITTER), len({round(x) for x in JITTER})
    if lo > 60.0 or hi < 80.0 or distinct < 12:
        res.violation("c12.jitter", "delay_not_random_over_20_120ms", "%d lone-query answers were delayed by %.0f..%.0f ms (%d distinct values): not a random draw from 20..120 ms" % (
            len(JITTER), lo, hi, distinct), {}, {"seed": seed, "jitter": True})
    res.cls("jitter", "min<=%d" % (10 * int(lo // 10 + 1)), "max>=%d" % (10 * int(hi // 10)))


def run_shard(spec):
    res = Result()
    rng = rng_for("c12", spec["seed"], spec["shard"])
    del JITTER[:]
    for _ in range(spec["per"]):
        run_scenario(res, rng.randrange(1 << 30))
    judge_jitter(res, spec["seed"])
    return res


def replay(blob):
    res = Result()
    if blob.get("jitter"):
        # an aggregate over a whole shard: replayed by re-running the quick plan's first shard
        return run_shard({"seed": blob["seed"], "shard": 0, "per": 1300, "tier": "quick"})
    run_scenario(res, blob["seed"])
    return res
