"""C03 - responder answers exactly what is registered, minus what the querier knows."""
from __future__ import annotations

import asyncio
import random
from typing import Any, Dict, List, Optional, Sequence, Set, Tuple

from .. import respond as R
from .. import simnet, wire
from ..common import Result, rng_for, tb
from ..models import ENUM_NAME, ResponderModel, Svc

PROPERTY_ID = "C03"
LEVEL = "exploration"
RULE = ("Registries of 0..6 services (5 type spellings incl. a subtype and an upper-case type, shared/distinct host names, v4/v6/"
        "dual/multi-address, custom TTLs 2..10000, dotted/non-ASCII instance labels) reached by random register/update/unregister "
        "sequences on a real Zeroconf in the simulator. In each reached state: every 1-question query over {types, instance "
        "names, host names, their re-cased spellings, names unregistered earlier, never-registered names, the enumeration name} x "
        "{PTR,A,AAAA,SRV,TXT,ANY,NSEC,99}, random 2..4-question queries, and known-answer lists with TTL just below/at/above half "
        "and full; evaluated by the real QueryHandler.async_response and, for a sample, by injecting the datagram and reading "
        "the replies off the simulated wire. Oracle: ResponderModel (vlib/models.py). Plus 'update races': a QM query 1..900 ms "
        "before async_update_service / async_unregister_service (answer still queued for aggregation or the one-second "
        "protection when the registry changes): nothing that leaves the host after the change may carry the replaced SRV/TXT "
        "with a positive TTL. A few real-time histories go through the blocking API of a Zeroconf() with its own loop thread "
        "(register/update/unregister_service from a non-loop thread; updates by a fresh object with new data, by a fresh object "
        "that differs in the TTLs only, or in place). Updates re-submit either a fresh ServiceInfo or the registered object changed in place (TTLs, port, "
        "weight, priority, optionally the addresses); names include capitals, non-ASCII and casefold-special letters. Distinct = (question type, name relation, "
        "known-answer boundary, registry-op history class, path) tuples.")
ASSUMPTIONS = ["NSEC owner name is compared per service (the library names it after the instance)",
               "ANY on host names and NSEC known answers: soundness only (outside the completeness claim)"]
QTYPES = [12, 1, 28, 33, 16, 255, 47, 99]


def floors(tier):
    q = tier == "quick"
    return {"c03.answers": 200000 if q else 15000000, "c03.additionals": 30000 if q else 2000000, "c03.wire": 1500 if q else 150000,
            "c03.wire.update_race": 2000 if q else 250000, "c03.blocking": 5 if q else 30}


def plan(tier, seed):
    if tier == "quick":
        n, per = 16, 40
    else:
        n, per = 64, 1200
    return [{"seed": seed, "shard": i, "per": per, "tier": tier} for i in range(n)]


def recase(rng: random.Random, s: str) -> str:
    return rng.choice([s.upper(), s.lower(), s.swapcase(), s.title()])


class Run:
    def __init__(self, res: Result, rng: random.Random, seed: int):
        self.res = res
        self.rng = rng
        self.seed = seed
        self.model = ResponderModel()
        self.infos: Dict[str, Any] = {}
        self.gone_names: List[str] = []
        self.ops: List[Any] = []
        self.last_op = "init"
        self.blocking = False

    def viol(self, monitor: str, kind: str, detail: str, **sig: Any) -> None:
        self.res.violation(monitor, kind, detail, dict(sig), {"seed": self.seed, "ops": self.ops[-14:], "query": sig.get("_q"), "blocking": self.blocking})

    # -- registry operations ------------------------------------------------------------
    async def op(self, sim: simnet.Sim, zc: Any) -> None:
        rng = self.rng
        names = list(self.model.services)
        r = rng.random()
        if not names or (r < 0.45 and len(names) < 6):
            s = R.gen_service(rng)
            if s.key() in self.model.services:
                return
            info = R.make_info(s)
            task = await zc.async_register_service(info, cooperating_responders=True, strict=False)
            self.model.register(s)
            self.infos[s.key()] = info
            self.ops.append(["register", s.brief()])
            self.last_op = "register"
        elif r < 0.7:
            key = rng.choice(names)
            old = self.model.services[key]
            s = R.gen_service(rng, name=old.name, type_=old.type if rng.random() < 0.8 else None)
            if s.key() != key:
                return
            if R.BASE_OF.get(s.type, s.type) != R.BASE_OF.get(old.type, old.type):
                return
            held = self.infos.get(key)
            if held is not None and rng.random() < 0.4:
                # applications that keep their ServiceInfo change it in place (the TTLs, port, weight and priority are plain
                # attributes, the addresses have a setter) and hand the same object to update_service
                s.type, s.server, s.text = old.type, old.server, old.text
                keep_addrs = rng.random() < 0.5
                if keep_addrs:
                    s.addrs4, s.addrs6 = list(old.addrs4), list(old.addrs6)
                info = held
                info.host_ttl, info.other_ttl = s.host_ttl, s.other_ttl
                info.port, info.weight, info.priority = s.port, s.weight, s.priority
                if not keep_addrs:
                    info.addresses = list(s.addrs4) + list(s.addrs6)
                self.last_op = "update-inplace" + ("" if keep_addrs else "+addrs")
            else:
                info = R.make_info(s)
                self.last_op = "update"
            task = await zc.async_update_service(info)
            self.model.register(s)
            self.infos[key] = info
            self.ops.append([self.last_op, s.brief()])
        else:
            key = rng.choice(names)
            info = self.infos.pop(key)
            if rng.random() < 0.3:
                # unregister through a fresh equal ServiceInfo, as applications that rebuild the object do
                info = R.make_info(self.model.services[key])
            task = await zc.async_unregister_service(info)
            self.gone_names.append(self.model.services[key].name)
            self.gone_names.append(self.model.services[key].server)
            self.gone_names.append(self.model.services[key].type)
            self.model.unregister(key)
            self.ops.append(["unregister", key])
            self.last_op = "unregister"
        if rng.random() < 0.7:
            await task
        else:
            await sim.sleep_ms(rng.choice([0, 1, 300]))

    # -- queries ------------------------------------------------------------------------
    def name_pool(self) -> List[Tuple[str, str]]:
        rng = self.rng
        out: List[Tuple[str, str]] = [(ENUM_NAME, "enum"), (ENUM_NAME.upper(), "enum-recased")]
        for s in self.model.services.values():
            for nm, rel in ((s.type, "type"), (s.name, "instance"), (s.server, "host")):
                out.append((nm, rel))
                out.append((recase(rng, nm), rel + "-recased"))
        for nm in self.gone_names[-6:]:
            out.append((nm, "unregistered"))
        out.append(("never._http._tcp.local.", "never"))
        out.append(("_never._tcp.local.", "never"))
        out.append(("nohost.local.", "never"))
        seen = set()
        uniq = []
        for nm, rel in out:
            if nm not in seen:
                seen.add(nm)
                uniq.append((nm, rel))
        return uniq

    def known_for(self, expected: Dict[Tuple, int], mode: str) -> Dict[Tuple, int]:
        rng = self.rng
        known: Dict[Tuple, int] = {}
        for ident, ttls in expected.items():
            if ident[0] == "NSEC":
                continue
            ttl = max(ttls)
            if rng.random() < 0.7:
                half = ttl // 2
                choice = {"below": max(0, half - 1), "at": half if ttl % 2 == 0 else half, "above": half + 1, "full": ttl}[mode]
                known[ident] = choice
        return known

    def evaluate(self, zc: Any, now: float, questions: List[Tuple[str, int, bool]], known: Dict[Tuple, int], rel: str, kmode: str,
                 ucast_source: bool, probe: bool = False) -> None:
        from zeroconf._handlers.answers import construct_outgoing_multicast_answers
        from zeroconf._protocol.incoming import DNSIncoming
        res = self.res
        res.evaluations += 1
        auth = [(("PTR", "_x._tcp.local.", ("p._x._tcp.local.",)), 120)] if probe else []
        data = R.build_query(questions, list(known.items()), id_=res.evaluations & 0xFFFF, authorities=auth)
        msg = DNSIncoming(data, ("10.0.0.50", 5353 if not ucast_source else 40000), None, now)
        qa = zc.query_handler.async_response([msg], ucast_source)
        exp_known = {} if probe else known
        expected, allowed, exact = self.model.expected([(n, t) for n, t, _ in questions], exp_known)
        qdesc = {"questions": questions, "known": [[list(map(str, k)), v] for k, v in known.items()], "probe": probe}
        groups: List[Dict[Any, Set[Any]]] = []
        if qa is not None:
            groups = [qa.ucast, qa.mcast_now, qa.mcast_aggregate, qa.mcast_aggregate_last_second]
        got: Dict[Tuple, Any] = {}
        got_adds: Dict[Tuple, Set[Tuple]] = {}
        for g in groups:
            for rec, adds in g.items():
                ident = R.ident_of_lib(rec)
                got[ident] = rec
                got_adds.setdefault(ident, set()).update(R.ident_of_lib(a) for a in adds)
                for a in adds:
                    got[("add",) + R.ident_of_lib(a)] = a
        answers = {k: v for k, v in got.items() if k[0] != "add"}
        res.mon("c03.answers")
        sigbase = {"qtype": ",".join(str(t) for _, t, _ in questions[:2]), "rel": rel, "known": kmode, "after": self.last_op}
        universe = self.model.all_idents()
        if exact:
            if set(answers) != set(expected):
                missing = sorted(set(expected) - set(answers), key=repr)
                extra = sorted(set(answers) - set(expected), key=repr)
                self.viol("c03.answers", "answer_set_differs", "query %r known=%s: missing %r extra %r" % (questions, kmode, missing[:3], extra[:3]),
                          diff=("extra" if extra and not missing else ("missing" if missing and not extra else "both")),
                          extra_kind=(extra[0][0] + ":" + ("enum" if extra[0][1] == ENUM_NAME else "svc")) if extra else "-", _q=qdesc, **sigbase)
        else:
            extra = [k for k in answers if k not in universe]
            if extra:
                self.viol("c03.answers", "answer_not_registered", "query %r: answers not belonging to any registered service: %r" % (questions, extra[:3]), _q=qdesc, **sigbase)
        for ident, rec in answers.items():
            want_ttl = expected.get(ident, universe.get(ident))
            if want_ttl is not None and rec.ttl not in want_ttl:
                self.viol("c03.answers", "answer_ttl", "query %r: %r carries ttl %r, configured %r" % (questions, ident, rec.ttl, want_ttl), _q=qdesc, **sigbase)
        if answers:
            res.mon("c03.additionals")
            for ident, adds in got_adds.items():
                ok = allowed.get(ident)
                if ok is None:
                    ok = set()
                    for s in self.model.owner_service_of(ident):
                        ok |= set(s.all_records())
                bad = adds - ok
                if bad:
                    self.viol("c03.additionals", "foreign_additional", "query %r: answer %r has additionals outside its own service: %r" % (questions, ident, sorted(bad, key=repr)[:3]), _q=qdesc, **sigbase)
            for k, a in got.items():
                if k[0] == "add":
                    want_ttl = universe.get(k[1:])
                    if want_ttl is None:
                        self.viol("c03.additionals", "additional_not_registered", "query %r: additional %r is not a record of a registered service" % (questions, k[1:]), _q=qdesc, **sigbase)
                    elif a.ttl not in want_ttl:
                        self.viol("c03.additionals", "additional_ttl", "additional %r ttl %r configured %r" % (k[1:], a.ttl, want_ttl), _q=qdesc, **sigbase)
            # the datagrams the library would build from each group: additionals never repeat an answer
            for g in groups:
                if not g:
                    continue
                out = construct_outgoing_multicast_answers(g)
                a_ids: List[Tuple] = []
                d_ids: List[Tuple] = []
                for p in out.packets():
                    m = wire.parse(p, strict=False)
                    a_ids += [R.ident_of_wire(r) for r in m.answers]
                    d_ids += [R.ident_of_wire(r) for r in m.additionals]
                if set(a_ids) & set(d_ids):
                    self.viol("c03.additionals", "additional_repeats_answer", "query %r: %r both answer and additional" % (questions, sorted(set(a_ids) & set(d_ids), key=repr)[:2]), _q=qdesc, **sigbase)
                if len(set(a_ids)) != len(a_ids) or len(set(d_ids)) != len(d_ids):
                    self.viol("c03.additionals", "record_twice_in_reply", "query %r: a record appears twice in one reply" % (questions,), _q=qdesc, **sigbase)
        res.cls("direct", sigbase["qtype"], rel, kmode, self.last_op, "ans" if answers else "none", "ucast" if ucast_source else "mcast")
        if res.evaluations % 2999 == 5:
            res.sample({"registry": [s.brief() for s in self.model.services.values()], "query": questions, "known": kmode,
                        "answers": sorted(map(repr, answers))[:6]})

    def sweep_state(self, zc: Any, now: float) -> None:
        rng = self.rng
        pool = self.name_pool()
        for nm, rel in pool:
            for qt in QTYPES:
                self.evaluate(zc, now, [(nm, qt, False)], {}, rel, "none", False)
        # known-answer boundaries on answerable questions
        for nm, rel in pool:
            for qt in (12, 1, 28, 33, 16, 255):
                expected, _, _ = self.model.expected([(nm, qt)], {})
                if not expected:
                    continue
                for kmode in ("below", "at", "above", "full"):
                    if rng.random() < 0.5:
                        self.evaluate(zc, now, [(nm, qt, rng.random() < 0.2)], self.known_for(expected, kmode), rel, kmode, rng.random() < 0.15)
        # multi-question queries
        for _ in range(12):
            k = rng.choice([2, 2, 3, 4])
            qs = []
            for _j in range(k):
                nm, rel = rng.choice(pool)
                qs.append((nm, rng.choice(QTYPES), rng.random() < 0.2))
            expected, _, _ = self.model.expected([(n, t) for n, t, _ in qs], {})
            kmode = rng.choice(["none", "below", "at", "above", "full"])
            known = self.known_for(expected, kmode) if kmode != "none" else {}
            self.evaluate(zc, now, qs, known, "multi", kmode, rng.random() < 0.15, probe=rng.random() < 0.1)

    async def wire_sample(self, sim: simnet.Sim, host: simnet.SimHost, n: int) -> None:
        rng = self.rng
        pool = self.name_pool()
        for _ in range(n):
            nm, rel = rng.choice(pool)
            qt = rng.choice([12, 12, 1, 28, 33, 16, 255])
            expected, allowed, exact = self.model.expected([(nm, qt)], {})
            kmode = rng.choice(["none", "none", "above", "below"])
            known = self.known_for(expected, kmode) if kmode != "none" else {}
            expected, allowed, exact = self.model.expected([(nm, qt)], known)
            await sim.sleep_ms(2500)   # let every queue drain so replies are attributable
            t0 = sim.now_ms()
            mark = len(sim.net.trace)
            data = R.build_query([(nm, qt, False)], list(known.items()), id_=rng.randrange(65536))
            sim.net.inject(host, data, ("10.0.0.50", 5353))
            await sim.sleep_ms(1400)
            self.res.evaluations += 1
            self.res.mon("c03.wire")
            universe = self.model.all_idents()
            seen_answers: Dict[Tuple, int] = {}
            for e in sim.net.trace[mark:]:
                m = wire.parse(e["data"], strict=True)
                if not m.is_response:
                    continue
                a_ids = [R.ident_of_wire(r) for r in m.answers]
                d_ids = [R.ident_of_wire(r) for r in m.additionals]
                if set(a_ids) & set(d_ids):
                    self.viol("c03.wire", "additional_repeats_answer", "on the wire: %r" % (sorted(set(a_ids) & set(d_ids), key=repr)[:2],), rel=rel)
                for r in m.answers + m.additionals:
                    ident = R.ident_of_wire(r)
                    if ident not in universe:
                        self.viol("c03.wire", "record_not_registered", "host sent %r which no registered service owns (query %s %d)" % (ident, nm, qt), rel=rel, after=self.last_op)
                    elif r.ttl not in universe[ident]:
                        self.viol("c03.wire", "wire_ttl", "host sent %r with ttl %d configured %r" % (ident, r.ttl, universe[ident]), rel=rel)
                for r in m.answers:
                    seen_answers[R.ident_of_wire(r)] = r.ttl
            if exact:
                missing = set(expected) - set(seen_answers)
                if missing:
                    self.viol("c03.wire", "expected_answer_not_sent", "query (%s,%d) known=%s: %r never multicast within 1.4 s" % (nm, qt, kmode, sorted(missing, key=repr)[:3]), rel=rel, after=self.last_op)
                extra = set(seen_answers) - set(expected)
                if extra and not known:
                    self.viol("c03.wire", "unexpected_answer_sent", "query (%s,%d): answered with %r" % (nm, qt, sorted(extra, key=repr)[:3]), rel=rel, after=self.last_op)
            self.res.cls("wire", str(qt), rel, kmode, self.last_op, "ans" if expected else "none")


def run_history(res: Result, seed: int, n_ops: int, wire_n: int) -> None:
    rng = random.Random(seed)
    run = Run(res, rng, seed)
    with simnet.Sim(seed & 0xFFFF) as sim:
        async def main():
            host = sim.net.add_host("H", "10.0.0.1", "fe80::1", layout=rng.choice(["single", "split"]))
            if host.layout == "single":
                host.ip6 = None
            azc = await sim.start_host(host)
            zc = azc.zeroconf
            for i in range(n_ops):
                await run.op(sim, zc)
                run.sweep_state(zc, sim.now_ms())
                if wire_n and i % 3 == 2:
                    await run.wire_sample(sim, host, wire_n)
            await azc.async_close()
        try:
            sim.run(main())
        except Exception as e:
            res.violation("c03.answers", "exception", "exception during history: %r\n%s" % (e, tb()), {"exc_type": type(e).__name__}, {"seed": seed, "ops": run.ops})
        if sim.net.escapes:
            res.violation("c03.answers", "loop_exception", repr(sim.net.escapes[0])[:800], {}, {"seed": seed, "ops": run.ops})


def run_update_race(res: Result, seed: int) -> None:
    """'After a service is updated or unregistered replies reflect only the new state': a QM query arrives shortly *before*
    async_update_service / async_unregister_service, so its answer is still waiting in the aggregation (20..500 ms) or the
    protected (1 s) queue when the registry changes.  Whatever leaves the host after the change must not carry the replaced
    SRV/TXT records (records whose rdata differs from the new registration) with a positive TTL."""
    from ..models import Svc
    rng = random.Random(seed)
    res.evaluations += 1
    T = "_http._tcp.local."
    old = Svc(T, "race." + T, "race-host.local.", 8080, b"\x03a=1", [b"\x0a\x00\x00\x05"], [], 120, 4500)
    change = rng.choice(["txt", "port", "both", "addr", "addr", "host"])
    # a second service that keeps using the host name (and its address) through whatever happens to the first one
    keeper = Svc(T, "keep." + T, "race-host.local.", 7070, b"", [b"\x0a\x00\x00\x05"], [], 120, 4500) if rng.random() < 0.5 else None
    if change == "host":
        # the service moves to another host name
        new = Svc(T, "race." + T, "other-host.local.", 8080, b"\x03a=1", [b"\x0a\x00\x00\x07"], [], 120, 4500)
    elif change == "addr":
        # the host gets another address (and an IPv6 one: the NSEC record of the old state disappears as well)
        new = Svc(T, "race." + T, "race-host.local.", 8080, b"\x03a=1", [b"\x0a\x00\x00\x06"], [b"\xfe\x80" + b"\0" * 13 + b"\x06"], 120, 4500)
    else:
        new = Svc(T, "race." + T, "race-host.local.", 8080 if change == "txt" else 9090, b"\x03a=1" if change == "port" else b"\x03a=2", [b"\x0a\x00\x00\x05"], [], 120, 4500)
    gap = rng.choice([300.0, 700.0, 1500.0, 3000.0])         # last announcement ... query (below 1000: protected queue)
    delta = rng.choice([1.0, 5.0, 15.0, 50.0, 100.0, 119.0, 200.0, 450.0, 900.0])     # query ... update
    qkind = rng.choice(["ptr", "txt", "srv", "any", "multi", "a", "a"] + (["a+keep", "a+keep"] if keeper else []))
    api = rng.choice(["update", "update", "unregister"])
    # a second querier asks the same a little later: its answer waits in a group of its own (later random send time)
    q2 = rng.choice([None, None, 100.0, 300.0, 600.0])
    desc = {"update_race": True, "change": change, "gap": gap, "delta": delta, "question": qkind, "api": api, "keeper": keeper is not None, "second_query_after": q2}

    def viol(kind: str, detail: str, **sig: Any) -> None:
        res.violation("c03.wire", kind, detail, dict(sig, family="update_race"), {"seed": seed, "update_race": True, "scenario": desc})

    out: Dict[str, Any] = {}
    with simnet.Sim(seed & 0xFFFF) as sim:
        async def main():
            host = sim.net.add_host("H", "10.0.0.1", None, layout=rng.choice(["single", "split"]))
            azc = await sim.start_host(host)
            zc = azc.zeroconf
            info_old = R.make_info(old)
            t = await zc.async_register_service(info_old, cooperating_responders=True)
            await t
            if keeper is not None:
                t = await zc.async_register_service(R.make_info(keeper), cooperating_responders=True)
                await t
            await sim.sleep_ms(gap)
            out["Q"] = sim.now_ms()
            qs = {"a+keep": [(old.server, 1, False), ("keep." + T, 33, False)], "ptr": [(T, 12, False)], "txt": [(old.name, 16, False)], "srv": [(old.name, 33, False)], "any": [(old.name, 255, False)],
                  "multi": [(T, 12, False), (old.name, 16, False)], "a": [(old.server, 1, False)]}[qkind]
            sim.net.inject_now(host, R.build_query(qs, id_=7), ("10.0.0.50", 5353))
            if q2 is not None:
                await sim.sleep_ms(q2)
                sim.net.inject_now(host, R.build_query(qs, id_=8), ("10.0.0.51", 5353))
            await sim.sleep_ms(delta)
            out["U"] = sim.now_ms()
            out["mark"] = len(sim.net.trace)
            if api == "update":
                t = await zc.async_update_service(R.make_info(new))
            else:
                t = await zc.async_unregister_service(info_old)
            await t
            await sim.sleep_ms(2500)
            await azc.async_close()
        try:
            sim.run(main())
        except Exception as e:
            viol("exception", "exception during update race: %r\n%s" % (e, tb()), exc_type=type(e).__name__)
            return
    res.mon("c03.wire")
    res.mon("c03.wire.update_race")
    gone = ({old.srv(), old.txt()} | old.addr_and_nsec()) - (({new.srv(), new.txt()} | new.addr_and_nsec()) if api == "update" else set())
    if keeper is not None:
        gone -= {keeper.srv(), keeper.txt()} | keeper.addr_and_nsec()
        if qkind in ("a", "a+keep"):
            # the other way round: what the remaining service still owns is owed to the query that asked for it, whatever
            # happens to the first service meanwhile (aggregation: 500 ms, one-second protection: 1200 ms after the query)
            res.mon("c03.wire.update_race.kept")
            owed = ("A", "race-host.local.", (b"\x0a\x00\x00\x05",))
            seen = [e["t"] - out["Q"] for e in sim.net.trace if e["t"] >= out["Q"] - 1e-6 and e["mcast"] and e["host"] == "H"
                    for m in [wire.parse(e["data"], strict=True)] if m.is_response
                    for r in m.answers if r.ttl > 0 and R.ident_of_wire(r) == owed]
            if not [x for x in seen if x <= 1300.0]:
                viol("answer_of_remaining_service_lost", "%s (%s) issued %.0f ms after a query for the address of race-host.local.: the address record, still owned by "
                     "keep.%s, was not multicast within 1.3 s of the query (seen at %r ms)" % (api, change, delta, T, [round(x) for x in seen][:3]), api=api, change=change)
    for e in sim.net.trace[out["mark"]:]:
        m = wire.parse(e["data"], strict=True)
        if not m.is_response:
            continue
        for r in m.answers + m.additionals:
            ident = R.ident_of_wire(r)
            if r.ttl > 0 and ident in gone:
                viol("reply_reflects_old_state", "%s issued %.0f ms after a %s query arrived: %r (replaced by the %s) left the host with ttl %d %.0f ms after the change" % (
                    api, delta, qkind, ident, api, r.ttl, e["t"] - out["U"]), api=api, kind_of_record=ident[0])
                break
    res.cls("update_race", api, change, qkind, "gap=%d" % gap, "delta=%d" % delta, "q2=%s" % (q2 is not None))


def run_blocking(res: Result, seed: int) -> None:
    """The same registry operations through the blocking API of a Zeroconf() with its own loop thread (real time, fake sockets):
    register_service / update_service (fresh object with changed data, fresh object that differs in the TTLs only, the registered
    object changed in place) / unregister_service, called from a non-loop thread; after each the registry state is queried in the
    loop thread and judged by the same model."""
    from ..threadrun import BlockingInstance
    rng = random.Random(seed)
    run = Run(res, rng, seed)
    run.blocking = True
    res.evaluations += 1
    try:
        with BlockingInstance() as bi:
            zc = bi.zc
            svcs = []
            for i in range(rng.choice([1, 2])):
                s = R.gen_service(rng, min_ttl=10)
                if any(x.key() == s.key() for x in svcs):
                    continue
                svcs.append(s)
                info = R.make_info(s)
                zc.register_service(info, cooperating_responders=True, strict=False)
                run.model.register(s)
                run.infos[s.key()] = info
                run.ops.append(["blocking-register", s.brief()])
                run.last_op = "blocking-register"
                bi.in_loop(run.sweep_state, zc, bi.now_ms())
            for _ in range(rng.choice([2, 3])):
                old = rng.choice(list(run.model.services.values()))
                how = rng.choice(["ttl-only", "ttl-only", "data", "inplace"])
                s = R.gen_service(rng, name=old.name, type_=old.type, min_ttl=10)
                s.server = old.server
                if how == "ttl-only":
                    # a fresh object that differs from the registered one in nothing but the TTLs
                    s.port, s.text, s.priority, s.weight, s.addrs4, s.addrs6 = old.port, old.text, old.priority, old.weight, list(old.addrs4), list(old.addrs6)
                    s.host_ttl = rng.choice([t for t in (10, 30, 60, 121, 10000) if t != old.host_ttl])
                    s.other_ttl = rng.choice([t for t in (10, 100, 4501, 10000) if t != old.other_ttl])
                if how == "inplace":
                    info = run.infos[old.key()]
                    s.text, s.addrs4, s.addrs6 = old.text, list(old.addrs4), list(old.addrs6)
                    info.host_ttl, info.other_ttl, info.port, info.weight, info.priority = s.host_ttl, s.other_ttl, s.port, s.weight, s.priority
                else:
                    info = R.make_info(s)
                zc.update_service(info)
                run.model.register(s)
                run.infos[s.key()] = info
                run.ops.append(["blocking-update-" + how, s.brief()])
                run.last_op = "blocking-update-" + how
                res.mon("c03.blocking")
                bi.in_loop(run.sweep_state, zc, bi.now_ms())
            key = rng.choice(list(run.model.services))
            zc.unregister_service(run.infos.pop(key))
            gone = run.model.services[key]
            run.gone_names.extend([gone.name, gone.server, gone.type])
            run.model.unregister(key)
            run.ops.append(["blocking-unregister", key])
            run.last_op = "blocking-unregister"
            bi.in_loop(run.sweep_state, zc, bi.now_ms())
            bad = [e for e in bi.net.escapes if "was destroyed but it is pending" not in str(e.get("message"))]
            if bad:
                res.violation("c03.answers", "loop_exception", repr(bad[0])[:800], {}, {"seed": seed, "blocking": True, "ops": run.ops})
    except Exception as e:
        res.violation("c03.answers", "exception", "exception during blocking-API history: %r\n%s" % (e, tb()), {"exc_type": type(e).__name__}, {"seed": seed, "blocking": True, "ops": run.ops})


def run_shard(spec):
    res = Result()
    rng = rng_for("c03", spec["seed"], spec["shard"])
    for _ in range(spec["per"]):
        seed = rng.randrange(1 << 30)
        run_history(res, seed, n_ops=rng.choice([3, 6, 12]), wire_n=2)
        res.extra["histories"] = res.extra.get("histories", 0) + 1
        for _k in range(4):
            run_update_race(res, rng.randrange(1 << 30))
    if spec["shard"] in ((3, 4, 5) if spec["tier"] == "quick" else range(3, 19)):
        run_blocking(res, rng.randrange(1 << 30))
    return res


def replay(blob):
    res = Result()
    if blob.get("blocking"):
        run_blocking(res, blob["seed"])
        return res
    if blob.get("update_race"):
        run_update_race(res, blob["seed"])
        return res
    run_history(res, blob["seed"], 12, 2)
    return res
