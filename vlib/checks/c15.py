"""C15 - a running instance survives any datagram stream."""
from __future__ import annotations

import asyncio
import random
import struct
from typing import Any, Dict, List, Optional, Tuple

from .. import respond as R
from .. import simnet, wire
from ..common import Result, rng_for, tb
from ..models import Svc
from . import c02

PROPERTY_ID = "C15"
LEVEL = "exploration"
RULE = ("Host H (real Zeroconf: 1..2 registered services, an active browser, a service-info lookup loop in progress; single or "
        "split sockets) receives a stream of 20..400 datagrams mixing: random bytes, bit-flipped/truncated/extended copies of "
        "valid mDNS queries and responses (from the real and the independent encoder), queries and responses about H's own "
        "names with corrupted fields, hostile compression graphs (chains to 4400 hops, cycles, fan-in), labels of invalid UTF-8 "
        "that expand beyond 63 bytes when echoed, TC-flagged garbage, datagrams of 8967..12000 bytes - from port 5353 and from "
        "legacy ports, as multicast and unicast deliveries - interleaved with valid traffic and clock advances of 0 ms..20 s. "
        "Monitors: nothing reaches the event-loop exception handler (BaseException included) and the lookups running in the "
        "background never raise; an oversized datagram changes "
        "neither cache, registry, question history nor the wire; afterwards canary 1 (a fresh PTR query) is answered with H's "
        "PTR within 1.4 s, canary 2 (a second real instance announcing a brand-new service) reaches H's browser as Added and canary 3 "
        "(a service announced, withdrawn by a goodbye alone or mixed with new/refreshed/flush records in one datagram, and "
        "announced again) is reported Added both times, and canary 4 (the browser still sends its 75 % refresh query for a pointer "
        "learned after the stream) shows the query scheduler alive; canary 5: a query answered earlier and repeated byte for byte "
        "right after an undecodable datagram is answered again; canary 6: the real announcement still reaches the browser after "
        "a copy with one bit flipped in its type label arrived first (known finding F28) "
        "within 1.5 s. Streams also contain bursts of 2..69 distinct truncated queries from one source followed by silence, and "
        "every third background lookup gets a valid answer delivered in the loop pass of its deadline. Distinct = (generator, "
        "source class, delivery, handler reached, outcome) classes.")
ASSUMPTIONS = ["canary names are unique per run so that earlier fuzz traffic cannot have pre-empted them"]

T1 = "_http._tcp.local."
T2 = "_ipp._tcp.local."


def floors(tier):
    q = tier == "quick"
    return {"c15.no_escape": 80000 if q else 10000000, "c15.oversize_ignored": 3000 if q else 400000, "c15.canary_query": 1000 if q else 100000, "c15.canary_browse": 1000 if q else 100000,
            "c15.canary_reannounce": 1000 if q else 100000, "c15.canary_refresh": 1000 if q else 100000,
            "c15.canary_repeat_after_junk": 1000 if q else 100000, "c15.canary_preempted": 1000 if q else 100000,
            "c15.lookup_contained": 20000 if q else 2000000}


def plan(tier, seed):
    if tier == "quick":
        n, per = 16, 80
    else:
        n, per = 64, 2500
    return [{"seed": seed, "shard": i, "per": per, "tier": tier} for i in range(n)]


def invalid_utf8_label_query(rng: random.Random, answerable: str) -> bytes:
    """question 1: a name whose label is n x 0xFF (each byte becomes a 3-byte U+FFFD when decoded with 'replace');
    question 2: answerable, so a legacy unicast reply that echoes both questions is built."""
    n = rng.choice([1, 21, 22, 40, 63])
    lab = bytes([rng.choice([0xFF, 0xC0, 0xFE, 0x80])]) * n
    name1 = bytes([n]) + lab + b"\x05local\x00"
    q2 = b"".join(bytes([len(p)]) + p for p in [x.encode() for x in answerable.rstrip(".").split(".")]) + b"\x00"
    body = name1 + struct.pack(">HH", 12, 1) + q2 + struct.pack(">HH", 12, rng.choice([1, 0x8001]))
    return struct.pack(">HHHHHH", rng.randrange(65536), 0, 2, 0, 0, 0) + body


def invalid_utf8_label_response(rng: random.Random, svcs: List[Svc]) -> Tuple[bytes, str]:
    """Well-formed responses whose names contain labels of invalid UTF-8 (up to 63 bytes on the wire, up to 189 once decoded
    with 'replace'), placed where the instance will want to write them back: the pointer target of the browsed type (next
    query lists it as a known answer), the SRV target of a name being looked up (next query asks for its addresses), owner
    names, and pointers for the host's own service types."""
    n = rng.choice([1, 21, 22, 30, 40, 63])
    lab = bytes([rng.choice([0xFF, 0xC0, 0xFE, 0x80])]) * n
    if rng.random() < 0.4:
        lab = (b"ab" + lab + b"yz")[:63]
    t2 = [x.encode() for x in T2.rstrip(".").split(".")]
    bad_inst = wire.Name([lab] + t2)
    bad_host = wire.Name([lab, b"local"])
    kind = rng.choice(["ptr-alias", "ptr-alias", "srv-target", "owner", "ptr-own-type"])
    if kind == "ptr-alias":
        answers = [(T2, 12, 1, rng.choice([120, 4500]), bad_inst)]
        if rng.random() < 0.5:
            answers += [(bad_inst, 33, 0x8001, 120, (0, 0, 80, bad_host)), (bad_host, 1, 0x8001, 120, b"\x0a\x00\x00\x07")]
    elif kind == "srv-target":
        inst = "ghost%d.%s" % (rng.randrange(3), T2)
        answers = [(T2, 12, 1, 4500, inst), (inst, 33, 0x8001, 120, (0, 0, 80, bad_host)), (inst, 16, 0x8001, 4500, b"\x00")]
    elif kind == "owner":
        answers = [(bad_host, 1, 0x8001, 120, b"\x0a\x00\x00\x01"), (bad_inst, 33, 0x8001, 120, (0, 0, 80, "x.local.")), (bad_inst, 16, 0x8001, 4500, b"\x00")]
    else:
        s = rng.choice(svcs)
        answers = [(s.type, 12, 1, 4500, wire.Name([lab] + [x.encode() for x in s.type.rstrip(".").split(".")]))]
    return wire.build(id_=0, flags=0x8400, answers=answers, compress=rng.choice(["full", "none"])), "invalid-utf8-response-" + kind


def about_host(rng: random.Random, svcs: List[Svc]) -> Tuple[bytes, str]:
    """valid-looking traffic about H's own names and the browsed type, optionally corrupted"""
    s = rng.choice(svcs)
    kind = rng.choice(["query", "query-known", "response", "goodbye", "probe", "conflict-srv"])
    if kind == "query":
        qs = [(rng.choice([s.type, s.name, s.server, "_services._dns-sd._udp.local."]), rng.choice([12, 33, 16, 1, 28, 255, 47]), rng.random() < 0.3)
              for _ in range(rng.choice([1, 2, 4]))]
        data = R.build_query(qs, id_=rng.randrange(65536), tc=rng.random() < 0.15)
    elif kind == "query-known":
        data = R.build_query([(s.type, 12, False)], [(s.ptr(), rng.choice([0, 1, s.other_ttl]))], id_=rng.randrange(65536))
    elif kind == "probe":
        data = R.build_query([(s.type, 12, True)], id_=0, authorities=[(s.ptr(), 120)])
    elif kind == "goodbye":
        data = R.build_response([(s.ptr(), 0, False), (s.srv(), 0, True)], id_=rng.randrange(65536))
    elif kind == "conflict-srv":
        data = R.build_response([(("SRV", s.name.lower(), (0, 0, 9, "evil.local.")), 120, True), (("A", s.server.lower(), (b"\x01\x02\x03\x04",)), 120, True)])
    else:
        inst = "fuzz%d.%s" % (rng.randrange(50), T2)
        data = R.build_response([(("PTR", T2, (inst,)), rng.choice([0, 1, 4500]), False), (("SRV", inst, (0, 0, 1, "fz.local.")), 120, True),
                                 (("TXT", inst, (b"\x01a",)), 4500, True), (("A", "fz.local.", (b"\x0a\x00\x00\x63",)), 120, True)])
    if rng.random() < 0.6:
        data, how = c02.mutate(rng, data)
        kind += "+" + how
    return data, "about-host-" + kind.split("+")[0]


def gen_item(rng: random.Random, svcs: List[Svc]) -> Tuple[bytes, str]:
    r = rng.random()
    if r < 0.12:
        return c02.gen_random(rng), "random"
    if r < 0.30:
        base, src = c02.valid_message(rng)
        m, how = c02.mutate(rng, base)
        return m, "mut-" + src
    if r < 0.42:
        d, shape = c02.gen_compression_graph(rng)
        return d, "graph-" + shape.split("-")[0]
    if r < 0.46:
        return invalid_utf8_label_query(rng, rng.choice(svcs).type), "invalid-utf8-label"
    if r < 0.50:
        return invalid_utf8_label_response(rng, svcs)
    if r < 0.58:
        n = rng.choice([8967, 8968, 9000, 12000])
        base = R.build_query([(rng.choice(svcs).type, 12, False)], id_=rng.randrange(65536))
        return base + b"\0" * (n - len(base)), "oversize"
    if r < 0.66:
        base, _ = c02.valid_message(rng)
        return base, "valid-generic"
    return about_host(rng, svcs)


def snapshot_state(zc: Any) -> Tuple:
    cache = tuple(sorted((n, len(zc.cache.entries_with_name(n))) for n in zc.cache.names()))
    reg = tuple(sorted(zc.registry._services))
    hist = len(zc.question_history._history)
    return cache, reg, hist


def run_stream(res: Result, seed: int) -> None:
    from zeroconf import ServiceListener
    from zeroconf.asyncio import AsyncServiceBrowser, AsyncServiceInfo
    rng = random.Random(seed)
    length = rng.choice([20, 60, 150, 400])
    layout = rng.choice(["single", "split"])
    nsvc = rng.choice([1, 2])
    svcs = []
    for i in range(nsvc):
        s = R.gen_service(rng, type_=T1, min_ttl=10)
        s.name = "own%d.%s" % (i, T1)
        s.server = "h-own%d.local." % i
        svcs.append(s)
    added: List[Tuple[float, str]] = []
    items_log: List[Any] = []

    def viol(monitor: str, kind: str, detail: str, **sig: Any) -> None:
        res.violation(monitor, kind, detail, sig, {"seed": seed, "layout": layout, "length": length, "last_items": items_log[-6:]})

    class L(ServiceListener):
        def add_service(self, zc: Any, t: str, n: str) -> None:
            added.append((sim.now_ms(), n))

        def remove_service(self, *a: Any) -> None: pass
        def update_service(self, *a: Any) -> None: pass

    with simnet.Sim(seed & 0xFFFF) as sim:
        async def main():
            host = sim.net.add_host("H", "10.0.0.1", "fe80::1" if layout == "split" else None, layout=layout)
            peer = sim.net.add_host("P", "10.0.0.2")
            azc = await sim.start_host(host)
            pzc = await sim.start_host(peer)
            zc = azc.zeroconf
            for s in svcs:
                t = await zc.async_register_service(R.make_info(s), cooperating_responders=True)
                await t
            browser = AsyncServiceBrowser(zc, T2, listener=L())
            stop = {"flag": False}
            lookup_raised: List[str] = []

            async def lookup_loop():
                k = 0
                while not stop["flag"]:
                    k += 1
                    info = AsyncServiceInfo(T2, "ghost%d.%s" % (k % 3, T2))
                    res.mon("c15.lookup_contained")
                    if k % 3 == 1:
                        # "any timing": a valid answer that concerns this lookup is delivered in the very loop pass in which
                        # one of its waits runs out (the deadline is the one wait whose end is known in advance) - once
                        # just before and once just after the timer, both within the loop's clock resolution
                        for eps_ms in (0.0, 4e-7):
                            txt = ("TXT", "ghost%d.%s" % (k % 3, T2), (b"\x04k=%02d" % (k % 100),))
                            sim.net.inject(host, R.build_response([(txt, 4500, True)], id_=0), ("10.0.0.2", 5353), delay_ms=3000.0 + eps_ms)
                    try:
                        await info.async_request(zc, 3000)
                    except Exception as e:  # noqa - hostile records must not turn a lookup in progress into an exception: in an
                        # application this is a task of its own, i.e. the exception ends up in the loop's exception handler
                        if not lookup_raised:
                            viol("c15.no_escape", "lookup_in_progress_raised", "AsyncServiceInfo.async_request for ghost%d raised %r while the stream was being "
                                 "delivered" % (k % 3, e), exc_type=type(e).__name__)
                        lookup_raised.append(type(e).__name__)
                    await sim.sleep_ms(50)     # (a lookup satisfied from the cache returns at once)

            lt = asyncio.ensure_future(lookup_loop())
            await sim.sleep_ms(300)
            sources = [("10.0.0.77", 5353), ("10.0.0.78", 5353), ("10.0.0.79", rng.randrange(1024, 65000)), ("fe80::99", 5353), ("fe80::98", rng.randrange(1024, 65000))]
            async def deliver(i: int, data: bytes, gen: str, src: Tuple[str, int], sock: Any, v6: bool, unicast_delivery: bool) -> None:
                items_log.append({"i": i, "gen": gen, "len": len(data), "src": src, "head": data[:40].hex()})
                res.mon("c15.no_escape")
                before_esc = len(sim.net.escapes)
                pre = snapshot_state(zc) if len(data) > 8966 else None
                mark = len(sim.net.trace)
                try:
                    sim.net.inject_now(host, data, src, sock=sock)
                except BaseException as e:  # noqa - what the selector transport would hand to the loop's exception handler
                    import traceback
                    sim.net.escapes.append({"t": sim.now_ms(), "where": "datagram_received", "exc": repr(e), "exc_type": type(e).__name__,
                                            "tb": "".join(traceback.format_exception(type(e), e, e.__traceback__)[-5:])[-1500:]})
                if pre is not None:
                    res.mon("c15.oversize_ignored")
                    if snapshot_state(zc) != pre or len(sim.net.trace) != mark:
                        viol("c15.oversize_ignored", "oversize_datagram_processed", "a %d-byte datagram changed state or caused a transmission" % len(data))
                if rng.random() < 0.3:
                    await sim.sleep_ms(0)
                outcome = "ok"
                if len(sim.net.escapes) > before_esc:
                    esc = sim.net.escapes[before_esc]
                    outcome = "escape"
                    viol("c15.no_escape", "exception_escaped", "%s escaped into the event loop while processing a %d-byte datagram (%s) from %r: %s" % (
                        esc.get("exc_type"), len(data), gen, src, (esc.get("tb") or esc.get("exc") or "")[-600:]),
                        exc_type=esc.get("exc_type"), gen=gen.split("-")[0], legacy=src[1] != 5353)
                res.cls(gen, "legacy" if src[1] != 5353 else "mdns", "v6" if v6 else "v4", "ucast" if unicast_delivery else "mcast", outcome, layout)
            for i in range(length):
                if rng.random() < 0.04:
                    # a train of distinct, well-formed truncated queries from one source, each inside the hold of the previous
                    # one, then silence: the hold timer fires on whatever the listener still keeps for that source
                    bsrc = rng.choice(sources[:3])
                    k = rng.choice([2, 3, 8, 15, 16, 17, 18, 31, 32, 33, 34, 40, 64, 65]) if rng.random() < 0.5 else rng.randrange(2, 70)
                    for j in range(k):
                        s_ = rng.choice(svcs)
                        qd = R.build_query([(rng.choice([s_.type, s_.name, T2]), rng.choice([12, 33, 255]), False)], [(s_.ptr(), 1 + j)], id_=j, tc=True)
                        await deliver(i, qd, "tc-burst", bsrc, None, False, False)
                        gap_ms = rng.choice([0, 0, 1, 50, 200, 390])
                        if gap_ms:
                            await sim.sleep_ms(gap_ms)
                    await sim.sleep_ms(rng.choice([450, 600, 1200]))
                    continue
                if rng.random() < 0.12:
                    await sim.sleep_ms(rng.choice([0, 1, 130, 600, 1100, 20000]))
                    continue
                data, gen = gen_item(rng, svcs)
                src = rng.choice(sources)
                v6 = ":" in src[0]
                if v6 and layout == "single":
                    src = sources[0]
                    v6 = False
                unicast_delivery = layout == "split" and rng.random() < 0.3
                sock = None
                if unicast_delivery:
                    import socket as _s
                    cands = [x for x in host.respond if (x.family == _s.AF_INET6) == v6]
                    sock = cands[0] if cands else None
                await deliver(i, data, gen, src, sock, v6, unicast_delivery)
            # escapes raised from timers scheduled by the stream (deferred TC queries, queued answers)
            await sim.sleep_ms(2600)
            stop["flag"] = True
            # ---- canary 1
            res.mon("c15.canary_query")
            mark = len(sim.net.trace)
            sim.net.inject_now(host, R.build_query([(T1, 12, False)], id_=0xBEEF), ("10.0.0.200", 5353))
            await sim.sleep_ms(1400)
            answered = set()
            for e in sim.net.trace[mark:]:
                if e["host"] != "H" or not e["mcast"]:
                    continue
                m, _ = wire.try_parse(e["data"], strict=True)
                if m is None or not m.is_response:
                    continue
                answered.update(R.ident_of_wire(r) for r in m.answers if r.ttl > 0)
            want = {s.ptr() for s in svcs}
            if not want <= answered:
                viol("c15.canary_query", "canary_query_unanswered", "after the stream a PTR query for %s got %r, expected %r" % (T1, sorted(answered, key=repr)[:3], sorted(want, key=repr)))
            # ---- canary 2
            res.mon("c15.canary_browse")
            cname = "canary-%d.%s" % (seed & 0xFFFF, T2)
            cs = Svc(T2, cname, "canary-host.local.", 4242, b"\x04ok=1", [b"\x0a\x00\x00\x02"], [], 120, 4500)
            t_reg = sim.now_ms()
            t = await pzc.async_register_service(R.make_info(cs), cooperating_responders=True)
            await t
            await sim.sleep_ms(1100)
            hits = [x for x in added if x[1].lower() == cname.lower() and x[0] <= t_reg + 1500]
            if not hits:
                viol("c15.canary_browse", "canary_announcement_not_delivered", "browser of H did not report %s within 1.5 s" % cname)
            # ---- canary 3: a service that is withdrawn (in one of several datagram shapes) and announced again must be reported again
            res.mon("c15.canary_reannounce")
            rname = "regular-%d.%s" % (seed & 0xFFFF, T2)
            other = "bystander-%d.%s" % (seed & 0xFFFF, T2)
            ann = [(("PTR", T2, (rname,)), 4500, False), (("SRV", rname, (0, 0, 99, "regular-host.local.")), 120, True),
                   (("TXT", rname, (b"\x03a=1",)), 4500, True), (("A", "regular-host.local.", (b"\x0a\x00\x00\x09",)), 120, True)]
            fake = ("10.0.0.201", 5353)
            sim.net.inject_now(host, R.build_response(ann, id_=0), fake)
            await sim.sleep_ms(1100)
            first = [x for x in added if x[1].lower() == rname.lower()]
            shape = rng.choice(["goodbye-alone", "goodbye+new-record", "goodbye+refresh", "new-record+goodbye+flush"])
            bye = (("PTR", T2, (rname,)), 0, False)
            newrec = (("PTR", T2, (other,)), 4500, False)
            wd = {"goodbye-alone": [bye], "goodbye+new-record": [bye, newrec], "goodbye+refresh": [bye, (("PTR", T2, (cname,)), 4500, False)],
                  "new-record+goodbye+flush": [newrec, bye, (("TXT", rname, (b"\x03a=2",)), 4500, True)]}[shape]
            sim.net.inject_now(host, R.build_response(wd, id_=0), fake)
            await sim.sleep_ms(1100)
            t_again = sim.now_ms()
            sim.net.inject_now(host, R.build_response(ann, id_=0), fake)
            await sim.sleep_ms(300)
            again = [x for x in added if x[1].lower() == rname.lower() and x[0] >= t_again]
            res.cls("canary3", shape)
            if not first:
                viol("c15.canary_reannounce", "canary_announcement_not_delivered", "browser of H did not report the injected announcement of %s" % rname)
            elif not again:
                viol("c15.canary_reannounce", "reannouncement_not_delivered", "%s was announced, withdrawn (%s) and announced again 1.1 s later; the browser of H "
                     "did not report it again (cached PTRs for the type: %r)" % (rname, shape, sorted(r.alias for r in zc.cache.entries_with_name(T2) if hasattr(r, "alias"))), shape=shape)
            # ---- canary 5: a valid datagram repeated after junk is processed again (the duplicate-datagram memory must describe
            #      the datagram that really came last, whatever it was)
            res.mon("c15.canary_repeat_after_junk")
            q5 = R.build_query([(T1, 12, False)], id_=0xC5C5)
            sim.net.inject_now(host, q5, ("10.0.0.202", 5353))
            await sim.sleep_ms(2600)          # answered, and beyond both the duplicate window and the one-second protection
            junk = rng.choice([bytes(rng.randrange(256) for _ in range(7)), q5[:14], q5[:12] + b"\xc0"])
            sim.net.inject_now(host, junk, ("10.0.0.203", rng.choice([5353, 40123])))
            await sim.sleep_ms(rng.choice([0, 200, 900]))
            mark = len(sim.net.trace)
            sim.net.inject_now(host, q5, ("10.0.0.202", 5353))
            await sim.sleep_ms(1400)
            answered = set()
            for e in sim.net.trace[mark:]:
                if e["host"] != "H" or not e["mcast"]:
                    continue
                m, _ = wire.try_parse(e["data"], strict=True)
                if m is not None and m.is_response:
                    answered.update(R.ident_of_wire(r) for r in m.answers if r.ttl > 0)
            if not {s.ptr() for s in svcs} <= answered:
                viol("c15.canary_query", "repeated_query_after_junk_unanswered", "a PTR query answered 2.6 s earlier, repeated byte for byte after a %d-byte undecodable "
                     "datagram, got no answer" % len(junk))
            # ... and the same for a periodic re-announcement: identical bytes 100 s apart, the second one right after junk, must
            # refresh the records (they would otherwise expire 120 s after the first)
            yname = "periodic-%d.%s" % (seed & 0xFFFF, T2)
            yann = R.build_response([(("PTR", T2, (yname,)), 4500, False), (("SRV", yname, (0, 0, 7, "periodic-host.local.")), 120, True),
                                     (("A", "periodic-host.local.", (b"\x0a\x00\x00\x0b",)), 120, True)], id_=0)
            sim.net.inject_now(host, yann, ("10.0.0.204", 5353))
            await sim.sleep_ms(100_000)
            sim.net.inject_now(host, bytes(rng.randrange(256) for _ in range(9)), ("10.0.0.203", 5353))
            await sim.sleep_ms(200)
            sim.net.inject_now(host, yann, ("10.0.0.204", 5353))
            await sim.sleep_ms(30_000)
            srv_alive = any(not r.is_expired(sim.now_ms()) for r in zc.cache.get_all_by_details(yname, 33, 1))
            if not srv_alive:
                viol("c15.canary_query", "repeated_announcement_after_junk_ignored", "an announcement repeated byte for byte 100 s later, right after a 9-byte "
                     "undecodable datagram, did not refresh the records: the SRV (TTL 120) is gone 130 s after the first copy")
            # ---- canary 6: a bit-flipped copy of a valid announcement arrives BEFORE the real one (0x20 flipped in the type label of
            #      the pointer's owner name: '_ipp' -> '_Ipp'); the real announcement, sent afterwards, must still reach the browser
            res.mon("c15.canary_preempted")
            zname = "flipped-%d.%s" % (seed & 0xFFFF, T2)
            zrecs = [(("PTR", T2, (zname,)), 4500, False), (("SRV", zname, (0, 0, 9, "flipped-host.local.")), 120, True),
                     (("A", "flipped-host.local.", (b"\x0a\x00\x00\x0c",)), 120, True)]
            good = R.build_response(zrecs, id_=0)
            lab = b"\x04_" + T2.split(".")[0][1:].encode()
            pos = good.find(lab)
            bad = bytearray(good)
            bad[pos + 2] ^= 0x20
            sim.net.inject_now(host, bytes(bad), ("10.0.0.205", 5353))
            await sim.sleep_ms(1500)
            t_good = sim.now_ms()
            sim.net.inject_now(host, good, ("10.0.0.205", 5353))
            await sim.sleep_ms(500)
            if not [x for x in added if x[1].lower() == zname.lower()]:
                viol("c15.canary_browse", "announcement_preempted_by_case_variant", "a copy of an announcement with one bit flipped in the type label of the pointer's "
                     "owner name ('%s') arrived 1.5 s before the real announcement of %s: the browser never reported the service (cached pointer owners: %r)" % (
                         bytes(bad[pos + 1:pos + 1 + lab[0]]).decode("ascii", "replace"), zname,
                         sorted({r.name for r in zc.cache.entries_with_name(T2) if getattr(r, "alias", "").lower() == zname.lower()})),
                     mechanism="type_label_case")
            # ---- canary 4: the browser's query scheduler is still running: the pointer re-announced by canary 3 (TTL raised to the
            #      1125 s floor) must be asked for again at about 75 % of that TTL
            res.mon("c15.canary_refresh")
            ann2 = [(("PTR", T2, (rname,)), 1125, False)]
            sim.net.inject_now(host, R.build_response(ann2, id_=0), fake)
            t_learn = sim.now_ms()
            mark = len(sim.net.trace)
            await sim.sleep_ms(1125_000 * 0.80)
            asked = False
            for e in sim.net.trace[mark:]:
                if e["host"] != "H" or e["t"] < t_learn + 1125_000 * 0.70:
                    continue
                # (only the header and the question section are parsed: a known-answer list built from hostile cached names
                #  need not be parseable, but the questions still reach every responder)
                d = e["data"]
                qs = wire.questions_only(d) if len(d) > 12 and not (d[2] & 0x80) else None
                if qs and any(q.type == 12 and q.name.text().lower() == T2.lower() for q in qs):
                    asked = True
            if not asked:
                viol("c15.canary_refresh", "browser_stopped_querying", "the browser of H sent no query for %s between 70 %% and 80 %% of the TTL of a pointer it "
                     "learned after the stream (its refresh scheduler no longer runs)" % T2)
            lt.cancel()
            await browser.async_cancel()
            await azc.async_close()
            await pzc.async_close()

        try:
            sim.run(main())
        except Exception as e:
            viol("c15.no_escape", "exception", "exception during stream: %r\n%s" % (e, tb()), exc_type=type(e).__name__)
        # anything that reached the loop's exception handler outside the per-datagram check (timers)
        seen = res.violation_count
        for esc in sim.net.escapes:
            if "Task was destroyed" in str(esc.get("message")):
                continue
            if seen == res.violation_count:
                viol("c15.no_escape", "exception_escaped_from_timer", "%s reached the loop exception handler: %s" % (esc.get("exc_type"), (esc.get("tb") or "")[:1800]),
                     exc_type=esc.get("exc_type"))
                break
    res.evaluations += 1
    if res.evaluations % 11 == 1:
        res.sample({"seed": seed, "layout": layout, "length": length, "first_items": items_log[:5]})


def run_shard(spec):
    res = Result()
    rng = rng_for("c15", spec["seed"], spec["shard"])
    for _ in range(spec["per"]):
        run_stream(res, rng.randrange(1 << 30))
    return res


def replay(blob):
    res = Result()
    run_stream(res, blob["seed"])
    return res
