from . import _codec

PROPERTY_ID = "C01"
LEVEL = "exploration"
RULE = ("Messages are generated from a name pool with controlled suffix sharing (same name, shared trailing labels, re-cased, "
        "child/parent, 1..63 and 64+ byte labels, multi-byte UTF-8, 253-character names), all 8 record kinds, boundary TTLs, "
        "0..300 entries per section, plus single oversize entries and a byte-by-byte sweep of the 1460 limit across a record "
        "followed by a record re-using its names. Each is built by the real DNSOutgoing and decoded by DNSIncoming and by the "
        "independent strict parser vlib/wire.py. A case is non-trivial when it reaches the round-trip comparison; distinct = "
        "distinct tuples (mode, sections populated, #packets bucket, oversize count, generator tag, label bucket).")
ASSUMPTIONS = ["vlib/wire.py is a correct strict RFC 1035 parser (cross-checked against the library on valid traffic)",
               "names restricted to <=253 characters and <=255 wire octets, character-strings <=255 bytes (the quantifier)"]


def floors(tier):
    n = 12000 if tier == "quick" else 600000
    return {"c01.accept_reject": n, "c01.own_decoder": n, "c01.independent_decoder": n}


def plan(tier, seed):
    return _codec.plan("C01", tier, seed)


def run_shard(spec):
    return _codec.run_shard(spec)


def replay(blob):
    return _codec.replay("C01", blob)
