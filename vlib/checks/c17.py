"""C17 - shutdown is complete and quiet."""
from __future__ import annotations

import asyncio
import random
import threading
import time
from typing import Any, Dict, List, Optional, Tuple

from .. import respond as R
from .. import simnet, wire
from ..common import Result, rng_for, tb
from ..models import Svc

PROPERTY_ID = "C17"
LEVEL = "exploration"
RULE = ("A real AsyncZeroconf with 0..2 registered services, browsers (created directly and through async_add_service_listener), "
        "a record-update listener and pending service-info lookups is closed at an instant chosen at random and on a 25 ms grid "
        "relative to: a registration in flight (probing / announcing), incoming QM/QU/TC queries whose answers sit in the "
        "aggregation or protected queue or in the TC hold, browser start-up and refresh timers, lookups, and the 10 s purge. A "
        "second real instance keeps talking. After async_close returns the loop runs for 2 more virtual hours with datagrams "
        "injected at the closed instance. Monitors: three complete goodbyes for every registered service on the wire before "
        "close returns, and the last word on the wire about every instance the host ever advertised (a registration completing "
        "during close included) is a goodbye - and so is the last word about every SRV, TXT, address and NSEC record it multicast "
        "(services may share a host name with different address sets); afterwards no datagram on the wire from the host, no send attempt on its dead transports, no listener/"
        "browser callback, nothing in the loop exception handler; pending lookups return by their timeout; a second close sends "
        "nothing and does not raise. A few real-time runs exercise Zeroconf() with its own loop thread, ServiceBrowser threads "
        "and close() from another thread. Distinct = (in-flight activity set, close offset bucket, browser kind, layout).")
ASSUMPTIONS = ["timers left armed after close are allowed as long as they stay silent (their count is reported)",
               "real-time thread runs use generous waits; a watchdog there yields INCONCLUSIVE, never a violation"]

T1 = "_http._tcp.local."
T2 = "_ipp._tcp.local."


def floors(tier):
    q = tier == "quick"
    return {"c17.goodbyes": 1500 if q else 150000, "c17.quiet": 2500 if q else 300000, "c17.lookups": 1000 if q else 100000, "c17.second_close": 2500 if q else 300000,
            "c17.withdrawn": 2500 if q else 300000, "c17.threads": 4 if q else 16, "c17.threads.goodbyes": 1 if q else 4, "c17.threads.staggered": 3 if q else 12, "c17.threads.shared_loop": 2 if q else 4}


def plan(tier, seed):
    if tier == "quick":
        n, per, thr = 16, 200, 2
    else:
        n, per, thr = 64, 6000, 4
    specs = [{"seed": seed, "shard": i, "per": per, "tier": tier, "threads": 0} for i in range(n)]
    for k in range(4 if tier == "quick" else 8):
        specs.append({"seed": seed, "shard": 1000 + k, "per": 0, "tier": tier, "threads": thr})
    return specs


def run_scenario(res: Result, seed: int) -> None:
    from zeroconf import RecordUpdateListener, ServiceListener
    from zeroconf.asyncio import AsyncServiceBrowser, AsyncServiceInfo
    rng = random.Random(seed)
    res.evaluations += 1
    layout = rng.choice(["single", "split"])
    n_reg = rng.choice([0, 1, 2])
    acts = {k: rng.random() < p for k, p in (("inflight_reg", 0.4), ("queries", 0.6), ("tc", 0.3), ("browser_direct", 0.5), ("browser_api", 0.5),
                                                ("lookup", 0.5), ("old_browser", 0.3), ("peer_traffic", 0.7))}
    off = float(rng.choice([0, 25, 50, 75, 100, 125, 150, 175, 200, 225, 350, 400, 450, 500, 575, 800, 1000, 1100, 1200])) if rng.random() < 0.7 else float(rng.randrange(0, 1400))
    # two close calls overlapping in time (gathered, or the second started while the first is sending goodbyes): each has
    # "returned" on its own, so the instance must be quiet from the earlier of the two returns on
    overlap = float(rng.choice([0, 1, 100, 130, 260])) if rng.random() < 0.2 else None
    desc = {"layout": layout, "n_reg": n_reg, "acts": acts, "off": off, "overlap": overlap}
    log: List[Tuple[float, str, Any]] = []

    def viol(monitor: str, kind: str, detail: str, **sig: Any) -> None:
        res.violation(monitor, kind, detail, sig, {"seed": seed, "scenario": desc})

    with simnet.Sim(seed & 0xFFFF) as sim:
        class BL(ServiceListener):
            def __init__(self, tag: str):
                self.tag = tag

            def add_service(self, zc: Any, t: str, n: str) -> None:
                log.append((sim.now_ms(), "browser:" + self.tag, ("add", n)))

            def remove_service(self, zc: Any, t: str, n: str) -> None:
                log.append((sim.now_ms(), "browser:" + self.tag, ("remove", n)))

            def update_service(self, zc: Any, t: str, n: str) -> None:
                log.append((sim.now_ms(), "browser:" + self.tag, ("update", n)))

        class RL(RecordUpdateListener):
            def async_update_records(self, zc: Any, now: float, records: List[Any]) -> None:
                log.append((sim.now_ms(), "record_listener", len(records)))

            def async_update_records_complete(self) -> None:
                log.append((sim.now_ms(), "record_listener", "complete"))

        out: Dict[str, Any] = {"lookups": []}

        async def main():
            host = sim.net.add_host("H", "10.0.0.1", "fe80::1" if layout == "split" else None, layout=layout)
            peer = sim.net.add_host("P", "10.0.0.2")
            azc = await sim.start_host(host)
            pzc = await sim.start_host(peer)
            zc = azc.zeroconf
            svcs = []
            for i in range(n_reg):
                s = R.gen_service(rng, type_=T1, min_ttl=10)
                s.name = "own%d.%s" % (i, T1)
                # services may share a host name and still advertise different address sets (IPv4-only next to dual-stack)
                s.server = R.spell(rng, "h-own%d" % (i if rng.random() < 0.6 else 0)) + ".local."
                svcs.append(s)
                t = await zc.async_register_service(R.make_info(s), cooperating_responders=True)
                await t
            zc.async_add_listener(RL(), None)
            ps = Svc(T2, "peer-svc." + T2, "peer-host.local.", 99, b"", [b"\x0a\x00\x00\x02"], [], 120, 4500)
            if acts["peer_traffic"]:
                t = await pzc.async_register_service(R.make_info(ps), cooperating_responders=True)
                await t
            if acts["old_browser"]:
                AsyncServiceBrowser(zc, T2, listener=BL("old"), delay=1000)
                await sim.sleep_ms(rng.choice([16000, 900000]))
            await sim.sleep_ms(rng.choice([0, 300, 1500, 9000]))
            # ---- activities started `off` ms (or a bit more) before the close call
            t_base = sim.now_ms()
            C0 = t_base + 1400.0
            pending: List[Any] = []

            async def at(ms_before: float, fn: Any) -> None:
                await sim.sleep_until_ms(C0 - ms_before)
                r = fn()
                if asyncio.iscoroutine(r):
                    await r

            if acts["inflight_reg"]:
                s2 = R.gen_service(rng, type_=T1, min_ttl=10)
                s2.name = "late." + T1
                s2.server = "h-late.local."

                async def reg() -> None:
                    try:
                        t = await zc.async_register_service(R.make_info(s2))
                        await t
                    except Exception as e:  # noqa
                        log.append((sim.now_ms(), "registration_exception", repr(e)))
                pending.append(asyncio.ensure_future(at(off, lambda: asyncio.ensure_future(reg()))))
                if rng.random() < 0.5:
                    # a second registration started 10..140 ms before close is requested: with services registered it completes
                    # during the *second* goodbye round (the first round withdraws them, the second one the first latecomer)
                    s3 = R.gen_service(rng, type_=T1, min_ttl=10)
                    s3.name = "later." + T1
                    s3.server = "h-later.local."
                    off3 = float(rng.choice([10, 50, 90, 140]))

                    async def reg3() -> None:
                        try:
                            t = await zc.async_register_service(R.make_info(s3))
                            await t
                        except Exception as e:  # noqa
                            log.append((sim.now_ms(), "registration_exception", repr(e)))
                    pending.append(asyncio.ensure_future(at(off3, lambda: asyncio.ensure_future(reg3()))))
            if acts["queries"] and svcs:
                for k in range(rng.choice([1, 2, 3])):
                    s = rng.choice(svcs)
                    qs = [(rng.choice([s.type, s.name, s.server]), rng.choice([12, 33, 1, 255]), rng.random() < 0.3)]
                    data = R.build_query(qs, id_=100 + k)
                    sim.net.inject(host, data, ("10.0.0.60", rng.choice([5353, 5353, 40000])), delay_ms=max(0.0, C0 - off - k * 40.0 - sim.now_ms()))
            if acts["tc"] and svcs:
                data = R.build_query([(svcs[0].type, 12, False)], id_=7, tc=True)
                sim.net.inject(host, data, ("10.0.0.61", 5353), delay_ms=max(0.0, C0 - min(off, 450.0) - sim.now_ms()))
            if acts["browser_direct"]:
                pending.append(asyncio.ensure_future(at(off, lambda: AsyncServiceBrowser(zc, T2, listener=BL("direct"), delay=1000))))
            if acts["browser_api"]:
                api_listener = BL("api")
                pending.append(asyncio.ensure_future(at(off + 5.0, lambda: azc.async_add_service_listener(T2, api_listener))))
                if rng.random() < 0.5:
                    # the same listener object handed in again for another type (applications that reuse one listener): the
                    # first browser must not be left behind
                    pending.append(asyncio.ensure_future(at(off + 3.0, lambda: azc.async_add_service_listener("_osc._udp.local.", api_listener))))
            if acts["lookup"]:
                timeout = rng.choice([200, 1000, 3000])

                async def lookup() -> None:
                    from zeroconf import NotRunningException
                    info = AsyncServiceInfo(T2, "nobody." + T2)
                    S = sim.now_ms()
                    try:
                        r = await info.async_request(zc, timeout)
                    except NotRunningException:
                        # starting a lookup on an instance whose close has already begun is refused: the caller gets the exception
                        out["lookups"].append((S, timeout, sim.now_ms(), "refused"))
                        return
                    out["lookups"].append((S, timeout, sim.now_ms(), r))
                pending.append(asyncio.ensure_future(at(min(off, 1300.0), lambda: asyncio.ensure_future(lookup()))))
            await sim.sleep_until_ms(C0)
            out["registered_at_close"] = [s for s in svcs]
            out["reg_keys"] = sorted(zc.registry._services)
            out["C0"] = sim.now_ms()
            out["mark"] = len(sim.net.trace)
            if overlap is None:
                await azc.async_close()
                out["C"] = sim.now_ms()
                out["mark_after"] = len(sim.net.trace)
                out["dead_after"] = len(sim.net.dead_sends)
                out["log_after"] = len(log)
                out["esc_after"] = len(sim.net.escapes)
            else:
                rets: List[Tuple] = []

                async def closer(delay: float) -> None:
                    await sim.sleep_ms(delay)
                    await azc.async_close()
                    rets.append((sim.now_ms(), len(sim.net.trace), len(sim.net.dead_sends), len(log), len(sim.net.escapes)))
                await asyncio.gather(closer(0.0), closer(overlap))
                out["C"], out["mark_after"], out["dead_after"], out["log_after"], out["esc_after"] = min(rets)
                out["returns"] = [r[0] for r in rets]
            # ---- two more virtual hours with traffic
            for k in range(6):
                await sim.sleep_ms(rng.choice([10, 300, 1200, 11000, 600000, 1800000]))
                sim.net.inject(host, R.build_query([(T1, 12, False)], id_=500 + k), ("10.0.0.60", 5353))
                sim.net.inject(host, R.build_response([(("PTR", T2, ("zombie%d.%s" % (k, T2),)), 4500, False)], id_=600 + k), ("10.0.0.9", 5353))
                if acts["peer_traffic"] and k == 1:
                    t = await pzc.async_update_service(R.make_info(ps))
                    await t
            await sim.sleep_ms(3600_000)
            # ---- second close
            res.mon("c17.second_close")
            m2, d2 = len(sim.net.trace), len(sim.net.dead_sends)
            try:
                await azc.async_close()
            except Exception as e:
                viol("c17.second_close", "second_close_raised", "second async_close raised %r" % (e,))
            if [e for e in sim.net.trace[m2:] if e["host"] == "H"] or len(sim.net.dead_sends) != d2:
                viol("c17.second_close", "second_close_sent", "second async_close transmitted or tried to")
            out["timers_left"] = sum(1 for h in sim.loop._scheduled if not h._cancelled and "zeroconf" in repr(h))
            for p in pending:
                p.cancel()
            await pzc.async_close()

        try:
            sim.run(main())
        except Exception as e:
            viol("c17.quiet", "exception", "exception during scenario: %r\n%s" % (e, tb()), exc_type=type(e).__name__)
            return
        analyse(res, sim, desc, out, log, viol)
    if res.evaluations % 17 == 1:
        res.sample(dict(desc, close_took_ms=out.get("C", 0) - out.get("C0", 0), timers_left=out.get("timers_left")))


def withdrawn_monitor(res: Result, trace: List[Dict[str, Any]], C0: float, C: float, viol) -> None:
    """The last word on the wire about every instance this host ever advertised is a goodbye (services whose registration was
    still in progress when close was requested included: never announced, or announced and withdrawn)."""
    res.mon("c17.withdrawn")
    first_pos: Dict[str, float] = {}
    last_pos: Dict[str, float] = {}
    byes_after: Dict[str, int] = {}
    # every other record of the host's services (SRV, TXT, address, NSEC): whatever was multicast with a positive TTL must have
    # been followed by a TTL-0 copy before close returned (all services are withdrawn by close, so shared host names are too)
    rec_last_pos: Dict[Tuple, float] = {}
    rec_byes: Dict[Tuple, int] = {}
    for e in trace:
        if e["host"] != "H" or not e["mcast"]:
            continue
        m, _ = wire.try_parse(e["data"], strict=False)
        if m is None or not m.is_response:
            continue
        for r in m.answers + m.additionals:
            ident = R.ident_of_wire(r)
            if ident[0] != "PTR" or ident[1] != T1.lower():
                if ident[0] in ("SRV", "TXT", "A", "AAAA", "NSEC"):
                    if r.ttl > 0:
                        rec_last_pos[ident] = e["t"]
                        rec_byes[ident] = 0
                    elif ident in rec_last_pos:
                        rec_byes[ident] += 1
                continue
            alias = ident[2][0]
            if r.ttl > 0:
                first_pos.setdefault(alias, e["t"])
                last_pos[alias] = e["t"]
                byes_after[alias] = 0
            elif alias in last_pos:
                byes_after[alias] += 1
    for alias, t in sorted(last_pos.items()):
        if byes_after[alias] == 0:
            mech = "registration_completed_during_close_goodbyes" if first_pos[alias] >= C0 - 1e-6 else "other"
            viol("c17.withdrawn", "announced_not_withdrawn", "%s was last multicast with a positive TTL %.0f ms %s close was requested (first announced at %+.0f ms) "
                 "and no goodbye for it followed before async_close returned (+%.0f ms)" % (alias, abs(t - C0), "after" if t >= C0 else "before", first_pos[alias] - C0, C - C0),
                 mechanism=mech)
    for ident, t in sorted(rec_last_pos.items(), key=lambda kv: repr(kv[0])):
        if rec_byes[ident] == 0:
            viol("c17.withdrawn", "record_not_withdrawn", "%r was last multicast with a positive TTL %.0f ms %s close was requested and no TTL-0 copy followed before "
                 "async_close returned (+%.0f ms)" % (ident, abs(t - C0), "after" if t >= C0 else "before", C - C0), record_kind=ident[0])


def analyse(res: Result, sim: simnet.Sim, desc: Dict[str, Any], out: Dict[str, Any], log: List[Tuple], viol) -> None:
    C0, C = out["C0"], out["C"]
    # ---- goodbyes before close returned
    during = [e for e in sim.net.trace[out["mark"]:out["mark_after"]] if e["host"] == "H" and e["mcast"]]
    fds = sorted({e["fd"] for e in during})
    for s in out["registered_at_close"]:
        res.mon("c17.goodbyes")
        for fd in fds or [None]:
            n = 0
            for e in during:
                if e["fd"] != fd:
                    continue
                m = wire.parse(e["data"], strict=True)
                zero = {R.ident_of_wire(r) for r in m.answers + m.additionals if r.ttl == 0}
                if s.ptr() in zero:
                    n += 1
                    need = {s.srv(), s.txt()} | s.addr_and_nsec()
                    if need - zero:
                        viol("c17.goodbyes", "goodbye_incomplete", "goodbye at close lacks %r" % (sorted(need - zero, key=repr)[:2],))
                    if e["closing"]:
                        viol("c17.goodbyes", "goodbye_after_transport_close", "goodbye handed to a transport that was already closing")
            if n != 3 and desc.get("overlap") is not None:
                # (the second of two overlapping calls closes the sockets under the first call's goodbyes: listed in DESIGN as
                #  outside what the statement promises; an overlapping pair of calls is judged for quiet after the earlier return,
                #  exceptions and lookups only)
                res.obs("overlapping_close_goodbyes_sent_%d" % n)
            elif n != 3:
                viol("c17.goodbyes", "goodbye_count_at_close", "%d goodbyes for %s before async_close returned (expected 3)" % (n, s.name), count=n)
    if desc.get("overlap") is None:
        withdrawn_monitor(res, sim.net.trace[:out["mark_after"]], C0, C, viol)
    else:
        res.obs("overlapping_close_withdrawal_not_judged")
    # ---- quiet afterwards
    res.mon("c17.quiet")
    after = [e for e in sim.net.trace[out["mark_after"]:] if e["host"] == "H"]
    if after:
        e = after[0]
        m, _ = wire.try_parse(e["data"], strict=False)
        viol("c17.quiet", "transmitted_after_close", "host sent a %s datagram %.0f ms after async_close returned (%s)" % (
            "multicast" if e["mcast"] else "unicast", e["t"] - C, "response" if (m and m.is_response) else "query"),
            what=("response" if (m and m.is_response) else "query"))
    if len(sim.net.dead_sends) > out["dead_after"]:
        d = sim.net.dead_sends[out["dead_after"]]
        m, _ = wire.try_parse(d["data"], strict=False)
        viol("c17.quiet", "send_attempt_after_close", "the instance tried to send a %s on a closed transport %.0f ms after async_close returned" % (
            "response" if (m and m.is_response) else "query", d["t"] - C), what=("response" if (m and m.is_response) else "query"))
    late = [x for x in log[out["log_after"]:] if x[1] != "registration_exception"]
    if late:
        viol("c17.quiet", "callback_after_close", "%s callback %r fired %.0f ms after async_close returned" % (late[0][1], late[0][2], late[0][0] - C), who=late[0][1].split(":")[0])
    esc = [e for e in sim.net.escapes[out["esc_after"]:] if "was destroyed but it is pending" not in str(e.get("message"))]
    if esc:
        viol("c17.quiet", "exception_after_close", "exception reached the loop after close: %s %s" % (esc[0].get("exc_type"), (esc[0].get("tb") or esc[0].get("message") or "")[-500:]), exc_type=esc[0].get("exc_type"))
    pre_esc = [e for e in sim.net.escapes[:out["esc_after"]] if "was destroyed but it is pending" not in str(e.get("message"))]
    if pre_esc:
        viol("c17.quiet", "exception_during_close", "exception reached the loop before/during close: %s %s" % (pre_esc[0].get("exc_type"), (pre_esc[0].get("tb") or "")[-500:]), exc_type=pre_esc[0].get("exc_type"))
    # ---- lookups
    for S, timeout, done, r in out["lookups"]:
        res.mon("c17.lookups")
        if done > S + timeout + 1.0:
            viol("c17.lookups", "lookup_returned_late", "lookup started %.0f ms before close with timeout %d returned after %.0f ms" % (C0 - S, timeout, done - S))
        if r == "refused":
            if S < C0 - 1e-6:
                viol("c17.lookups", "lookup_refused_before_close", "NotRunningException for a lookup started %.0f ms before close was requested" % (C0 - S))
            continue
        if r:
            viol("c17.lookups", "lookup_succeeded_for_nobody", "lookup for a non-existent service returned True")
    if desc["acts"]["lookup"] and not out["lookups"]:
        viol("c17.lookups", "lookup_never_returned", "a lookup pending at close never returned (2 h later)")
    res.obs("timers_left_armed_after_close", out.get("timers_left", 0))
    offb = "0" if desc["off"] == 0 else ("<=250" if desc["off"] <= 250 else ("<=500" if desc["off"] <= 500 else ">500"))
    res.cls("+".join(sorted(k for k, v in desc["acts"].items() if v)) or "idle", "off=" + offb, desc["layout"], "reg=%d" % desc["n_reg"])


# ---------------------------------------------------------------------------------------
# real-time runs: Zeroconf() with its own loop thread, ServiceBrowser threads, close() from another thread


def run_threads(res: Result, seed: int, variant: Optional[int] = None) -> None:
    from zeroconf import ServiceBrowser, ServiceListener, Zeroconf
    import zeroconf._core as core
    rng = random.Random(seed)
    res.evaluations += 1
    net_holder: Dict[str, Any] = {}
    events: List[Tuple[float, str]] = []
    lock = threading.Lock()

    def viol(kind: str, detail: str) -> None:
        res.violation("c17.threads", kind, detail, {}, {"seed": seed, "threads": True, "variant": variant})

    class RealClock:
        @property
        def t(self) -> float:
            return time.monotonic()

        def ms(self) -> float:
            return time.monotonic() * 1000.0

    clock = RealClock()
    net = simnet.Net(clock)  # type: ignore[arg-type]
    host = net.add_host("H", "10.0.0.1")

    class RLoop(asyncio.SelectorEventLoop):
        async def create_datagram_endpoint(self, protocol_factory, local_addr=None, remote_addr=None, *, sock=None, **kw):
            protocol = protocol_factory()
            transport = simnet.FakeTransport(self, sock, protocol, net)  # type: ignore[arg-type]
            transport._vloop = self
            sock.transport = transport
            sock.protocol = protocol
            protocol.connection_made(transport)
            return transport, protocol

    class Policy(asyncio.DefaultEventLoopPolicy):
        def new_event_loop(self):
            loop = RLoop()
            loop.vclock = clock  # type: ignore[attr-defined]
            net.loop = loop      # type: ignore[assignment]
            escapes = net.escapes

            def handler(l: Any, ctx: Dict[str, Any]) -> None:
                escapes.append({"message": ctx.get("message"), "exc": repr(ctx.get("exception")), "exc_type": type(ctx.get("exception")).__name__})
            loop.set_exception_handler(handler)
            return loop

    if variant is None:
        variant = rng.randrange(4)
    busy = variant % 4 == 0            # a listener that takes its time: close() has to wait for the browser thread

    class L(ServiceListener):
        def add_service(self, zc: Any, t: str, n: str) -> None:
            with lock:
                events.append((time.monotonic(), "add " + n))
            if busy and n.startswith("slow."):
                time.sleep(0.7)

        def remove_service(self, zc: Any, t: str, n: str) -> None:
            with lock:
                events.append((time.monotonic(), "remove " + n))

        def update_service(self, zc: Any, t: str, n: str) -> None:
            with lock:
                events.append((time.monotonic(), "update " + n))

    saved_cs = core.create_sockets
    old_policy = asyncio.get_event_loop_policy()
    core.create_sockets = lambda *a, **k: host.make_sockets()
    asyncio.set_event_loop_policy(Policy())
    try:
        zc = Zeroconf()
        s = Svc(T1, "thr." + T1, "thr-host.local.", 80, b"", [b"\x0a\x00\x00\x01"], [], 120, 4500)
        info = R.make_info(s)
        if rng.random() < 0.5 and not busy:
            browser = ServiceBrowser(zc, T2, listener=L())
        else:
            zc.add_service_listener(T2, L())
            browser = list(zc.browsers.values())[0]
        reg_done = threading.Event()
        reg_err: List[Any] = []

        def do_register() -> None:
            try:
                zc.register_service(info)
            except Exception as e:  # noqa  (closing underneath a registration may raise in the registering thread)
                reg_err.append(e)
            reg_done.set()

        th = threading.Thread(target=do_register, daemon=True)
        th.start()
        time.sleep(rng.choice([0.1, 0.2, 0.3]) if busy else rng.choice([0.0, 0.1, 0.3, 0.5]))
        # some traffic for the browser thread
        zc.loop.call_soon_threadsafe(net.inject_now, host, R.build_response([(("PTR", T2, ("x." + T2,)), 4500, False)], id_=1), ("10.0.0.9", 5353))
        # wait until the browser thread has delivered that announcement (logical quiescence instead of a fixed 50 ms)
        waited = time.monotonic() + 15.0
        while time.monotonic() < waited:
            with lock:
                if any(ev[1].startswith("add x.") for ev in events):
                    break
            time.sleep(0.01)
        else:
            res.inconclusive.append("thread run: the browser thread did not deliver a callback within 15 s (machine overloaded?)")
            zc.close()
            return
        # the blocking API as applications use it: either close() alone, or unregister_service() followed at once by close()
        mode = "close" if variant % 4 in (0, 2) else "unregister+close"
        if mode == "unregister+close":
            if not reg_done.wait(15):
                res.inconclusive.append("thread run: registration did not finish within 15 s (machine overloaded?)")
                zc.close()
                return

        if busy:
            # the browser thread is inside a slow callback while close() runs; in one variant six slow callbacks (4.2 s of work)
            # are queued: close() has to wait for all of them, however long that takes
            n_slow = 6 if variant % 8 == 4 else 1
            for k in range(n_slow):
                zc.loop.call_soon_threadsafe(net.inject_now, host, R.build_response([(("PTR", T2, ("slow.%d.%s" % (k, T2),)), 4500, False)], id_=2 + k), ("10.0.0.9", 5353))
            time.sleep(0.05)

        def do_close() -> None:
            if mode == "unregister+close" and not reg_err:
                zc.unregister_service(info)
            zc.close()
        t0 = time.monotonic()
        closer = threading.Thread(target=do_close, daemon=True)
        closer.start()
        closer.join(30)
        if closer.is_alive():
            res.inconclusive.append("thread run: close() did not return within 30 s (watchdog)")
            return
        C = time.monotonic()
        mark, dead, nev, nesc = len(net.trace), len(net.dead_sends), len(events), len(net.escapes)
        reg_done.wait(15)
        time.sleep(1.2)
        res.mon("c17.threads")
        if len(net.trace) != mark:
            viol("transmitted_after_close", "datagram sent %.0f ms after close() returned" % ((net.trace[mark]["t"] / 1000.0 - C) * 1000))
        if len(net.dead_sends) != dead:
            viol("send_attempt_after_close", "send attempted on a closed transport after close() returned")
        with lock:
            if len(events) != nev:
                viol("callback_after_close", "browser callback %r after close() returned" % (events[nev][1],))
        bad = [e for e in net.escapes if "was destroyed but it is pending" not in str(e.get("message"))]
        if bad:
            viol("exception_in_loop", "loop exception handler got %r" % (bad[0],))
        if browser.is_alive():
            res.obs("directly_created_ServiceBrowser_thread_still_alive_after_close")   # not part of the statement: reported only
        goodbyes = 0
        for e in net.trace:
            m, _ = wire.try_parse(e["data"], strict=False)
            if m and m.is_response and any(r.ttl == 0 and R.ident_of_wire(r) == s.ptr() for r in m.answers):
                goodbyes += 1
        announced = any(m2 is not None and m2.is_response and any(r.ttl > 0 and R.ident_of_wire(r) == s.ptr() for r in m2.answers)
                        for m2 in (wire.try_parse(e["data"], strict=False)[0] for e in net.trace))
        if mode == "unregister+close" and not reg_err and announced:
            # the service was registered and announced, then withdrawn through the blocking API: three goodbyes are owed
            res.mon("c17.threads.goodbyes")
            if goodbyes != 3:
                viol("goodbye_count_blocking_api", "unregister_service() followed by close(): %d goodbye datagram(s) for the announced service (expected 3)" % goodbyes)
        # last word: whatever was announced must have been withdrawn afterwards
        last_pos = last_bye = None
        for e in net.trace:
            m3, _ = wire.try_parse(e["data"], strict=False)
            if m3 is None or not m3.is_response:
                continue
            for r in m3.answers:
                if R.ident_of_wire(r) == s.ptr():
                    if r.ttl > 0:
                        last_pos = e["t"]
                    else:
                        last_bye = e["t"]
        if last_pos is not None:
            res.mon("c17.threads.withdrawn")
            if last_bye is None or last_bye < last_pos:
                viol("announced_not_withdrawn_blocking_api", "%s (busy listener: %s): the service was last multicast with a positive TTL and no goodbye followed before "
                     "close() returned" % (mode, busy))
        res.cls("threads", mode, "busy" if busy else "idle", "goodbyes=%d" % goodbyes, "reg_err=%s" % (type(reg_err[0]).__name__ if reg_err else "none"))
        try:
            zc.close()
        except Exception as e:
            viol("second_close_raised", repr(e))
    except Exception as e:
        res.inconclusive.append("thread run crashed in harness: %r %s" % (e, tb()[-300:]))
    finally:
        core.create_sockets = saved_cs
        asyncio.set_event_loop_policy(old_policy)


def run_threads_staggered(res: Result, seed: int) -> None:
    """Blocking API: one service registered, two more register_service() calls in progress in other threads - started about
    235 ms and about 10 ms before close() is called from the main thread, so that the first completes its name check during the
    first goodbye pass of close() and the second during the pass that withdraws the first.  Whatever is announced must have
    been withdrawn when close() returns, and nothing may follow."""
    from ..threadrun import BlockingInstance
    rng = random.Random(seed)
    res.evaluations += 1
    desc: Dict[str, Any] = {"threads_staggered": True}

    def viol(monitor: str, kind: str, detail: str, **sig: Any) -> None:
        res.violation(monitor, kind, detail, dict(sig, family="threads_staggered"), {"seed": seed, "threads_staggered": True, "scenario": desc})

    try:
        with BlockingInstance() as bi:
            zc = bi.zc
            A = Svc(T1, "stag-a." + T1, "stag-ha.local.", 80, b"", [b"\x0a\x00\x00\x05"], [], 120, 4500)
            zc.register_service(R.make_info(A), cooperating_responders=True)
            errs: List[Any] = []

            def reg(svc: Svc) -> None:
                try:
                    zc.register_service(R.make_info(svc))
                except Exception as e:  # noqa - closing underneath a registration may raise in the registering thread
                    errs.append(repr(e))
            lead_b = rng.choice([0.20, 0.235, 0.27, 0.30])
            lead_c = rng.choice([0.005, 0.01, 0.03, 0.06])
            desc.update({"lead_b_ms": lead_b * 1000, "lead_c_ms": lead_c * 1000})
            B = Svc(T1, "stag-b." + T1, "stag-hb.local.", 81, b"", [b"\x0a\x00\x00\x06"], [], 120, 4500)
            Cs = Svc(T1, "stag-c." + T1, "stag-hc.local.", 82, b"", [b"\x0a\x00\x00\x07"], [], 120, 4500)
            tb_ = threading.Thread(target=reg, args=(B,), daemon=True)
            tc_ = threading.Thread(target=reg, args=(Cs,), daemon=True)
            tb_.start()
            time.sleep(lead_b - lead_c)
            tc_.start()
            time.sleep(lead_c)
            C0 = bi.now_ms()
            closer = threading.Thread(target=zc.close, daemon=True)
            closer.start()
            closer.join(30)
            if closer.is_alive():
                res.inconclusive.append("staggered thread run: close() did not return within 30 s (watchdog)")
                return
            bi.closed = True
            C = bi.now_ms()
            mark = len(bi.net.trace)
            tb_.join(15)
            tc_.join(15)
            time.sleep(1.0)
            res.mon("c17.threads.staggered")
            withdrawn_monitor(res, bi.net.trace[:mark], C0, C, viol)
            if len(bi.net.trace) != mark:
                viol("c17.threads", "transmitted_after_close", "datagram sent %.0f ms after close() returned (staggered registrations)" % (bi.net.trace[mark]["t"] - C))
            announced = sorted({R.ident_of_wire(r)[2][0] for e in bi.net.trace for m in [wire.try_parse(e["data"], strict=False)[0]] if m is not None and m.is_response
                                for r in m.answers if r.ttl > 0 and R.ident_of_wire(r)[0] == "PTR"})
            res.cls("threads_staggered", "announced=%d" % len(announced), "errs=%d" % len(errs))
    except Exception as e:
        viol("c17.threads", "exception", "exception in the staggered thread run: %r\n%s" % (e, tb()), exc_type=type(e).__name__)


def run_threads_shared_loop(res: Result, seed: int) -> None:
    """close() from a non-loop thread of an instance that was created inside the application's running event loop (it shares
    that loop, it has no loop thread of its own): one or two registered services must be withdrawn with three goodbyes before
    close() returns, and nothing follows."""
    from ..threadrun import SharedLoopInstance
    rng = random.Random(seed)
    res.evaluations += 1
    desc: Dict[str, Any] = {"threads_shared_loop": True}

    def viol(monitor: str, kind: str, detail: str, **sig: Any) -> None:
        res.violation(monitor, kind, detail, dict(sig, family="threads_shared_loop"), {"seed": seed, "threads_shared_loop": True, "scenario": desc})

    try:
        with SharedLoopInstance() as bi:
            zc = bi.zc
            svcs = []
            for i in range(rng.choice([1, 2])):
                s = Svc(T1, "shared%d.%s" % (i, T1), "shared-h%d.local." % i, 80 + i, b"", [bytes([10, 0, 0, 20 + i])], [], 120, 4500)
                zc.register_service(R.make_info(s), cooperating_responders=True)
                svcs.append(s)
            time.sleep(rng.choice([0.0, 0.05, 0.3]))
            C0 = bi.now_ms()
            closer = threading.Thread(target=zc.close, daemon=True)
            closer.start()
            closer.join(30)
            if closer.is_alive():
                res.inconclusive.append("shared-loop thread run: close() did not return within 30 s (watchdog)")
                return
            bi.closed = True
            C = bi.now_ms()
            mark = len(bi.net.trace)
            time.sleep(0.8)
            res.mon("c17.threads.shared_loop")
            for s in svcs:
                byes = 0
                for e in bi.net.trace[:mark]:
                    m, _ = wire.try_parse(e["data"], strict=False)
                    if m and m.is_response and e["t"] >= C0 - 1.0 and any(r.ttl == 0 and R.ident_of_wire(r) == s.ptr() for r in m.answers):
                        byes += 1
                if byes != 3:
                    viol("c17.threads", "goodbye_count_at_close", "close() from a worker thread of an instance sharing the application's loop: %d goodbye datagram(s) for %s "
                         "before it returned after %.0f ms (expected 3)" % (byes, s.name, C - C0), count=byes)
                    break
            withdrawn_monitor(res, bi.net.trace[:mark], C0, C, viol)
            if len(bi.net.trace) != mark:
                viol("c17.threads", "transmitted_after_close", "datagram sent %.0f ms after close() returned (shared loop)" % (bi.net.trace[mark]["t"] - C))
            bad = [e for e in bi.net.escapes if "was destroyed but it is pending" not in str(e.get("message"))]
            if bad:
                viol("c17.threads", "exception_in_loop", "loop exception handler got %r" % (bad[0],))
            res.cls("threads_shared_loop", "services=%d" % len(svcs))
    except Exception as e:
        viol("c17.threads", "exception", "exception in the shared-loop thread run: %r\n%s" % (e, tb()), exc_type=type(e).__name__)


def run_shard(spec):
    res = Result()
    rng = rng_for("c17", spec["seed"], spec["shard"])
    for _ in range(spec["per"]):
        run_scenario(res, rng.randrange(1 << 30))
    for j in range(spec.get("threads", 0)):
        run_threads(res, rng.randrange(1 << 30), variant=spec["shard"] * 2 + j)
        run_threads_staggered(res, rng.randrange(1 << 30))
        if j == 0:
            run_threads_shared_loop(res, rng.randrange(1 << 30))
    return res


def witnesses(spec):
    """Stored witness of known finding F16: service A registered; registration of B started; async_close requested 300 ms later
    (between B's second and third probe).  B's third probe and first announcement go out 50 ms into the goodbye phase of A; B
    was not in the registry when the goodbye was built, so it is announced and never withdrawn."""
    res = Result()
    res.evaluations += 1
    A = Svc(T1, "a." + T1, "ha.local.", 80, b"", [b"\x0a\x00\x00\x05"], [], 120, 4500)
    B = Svc(T1, "b." + T1, "hb.local.", 81, b"", [b"\x0a\x00\x00\x06"], [], 120, 4500)
    out: Dict[str, Any] = {}

    def viol(monitor: str, kind: str, detail: str, **sig: Any) -> None:
        res.violation(monitor, kind, detail, sig, {"witness": "F16"})

    with simnet.Sim(1) as sim:
        async def main():
            h = sim.net.add_host("H", "10.0.0.1")
            azc = await sim.start_host(h)
            zc = azc.zeroconf
            t = await zc.async_register_service(R.make_info(A))
            await t
            await sim.sleep_ms(2000)

            async def reg_b() -> None:
                t = await zc.async_register_service(R.make_info(B))
                await t
            fut = asyncio.ensure_future(reg_b())
            await sim.sleep_ms(300)
            out["C0"] = sim.now_ms()
            await azc.async_close()
            out["C"] = sim.now_ms()
            out["mark_after"] = len(sim.net.trace)
            await sim.sleep_ms(2000)
            fut.cancel()
        sim.run(main())
        withdrawn_monitor(res, sim.net.trace[:out["mark_after"]], out["C0"], out["C"], viol)
    return res


def replay(blob):
    res = Result()
    if blob.get("threads_staggered"):
        run_threads_staggered(res, blob["seed"])
        return res
    if blob.get("threads_shared_loop"):
        run_threads_shared_loop(res, blob["seed"])
        return res
    if blob.get("witness"):
        return witnesses({})
    if blob.get("threads"):
        run_threads(res, blob["seed"], blob.get("variant"))
    else:
        run_scenario(res, blob["seed"])
    return res
