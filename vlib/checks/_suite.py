"""The repository's own test suite as an additional workload: run it once under vlib.suite_monitors (a pytest plugin that
wraps classes of the working tree from the outside) and turn what the monitors saw into a Result."""
from __future__ import annotations

import json
import os
import shutil
import subprocess
import sys
import tempfile
from typing import Any, Dict, List, Optional

from .. import common
from ..common import Inconclusive, Result

HERE = os.path.dirname(os.path.dirname(os.path.dirname(os.path.abspath(__file__))))


def _cmd(out: str, tests: List[str]) -> List[str]:
    base = ["env", "VERIF_SUITE_OUT=" + out, "PYTHONPATH=%s:%s" % (HERE, common.REPO_SRC), "PYTHONDONTWRITEBYTECODE=1",
            sys.executable, "-m", "pytest", "-q", "-p", "no:cacheprovider", "-p", "vlib.suite_monitors", "--timeout=900",
            # the repository's pytest configuration puts <rootdir>/src first on sys.path and switches coverage on; the monitors
            # must see the tree under test (VERIF_REPO when a scratch copy is being evaluated) and need no coverage data
            "-o", "addopts=", "-o", "pythonpath=" + common.REPO_SRC] + tests
    ns = os.path.join(HERE, "tools", "netns_run.sh")
    probe = subprocess.run(["unshare", "-rn", "true"], stdout=subprocess.PIPE, stderr=subprocess.PIPE) if shutil.which("unshare") else None
    if probe is not None and probe.returncode == 0:
        return [ns] + base          # private network namespace: real multicast sockets of concurrent runs do not cross-talk
    return base


def run(prefixes: List[str], only_test: Optional[str] = None, timeout_s: int = 1500) -> Result:
    res = Result()
    tests_dir = os.path.join("/repo" if not os.path.isdir(os.path.join(common.REPO, "tests")) else common.REPO, "tests")
    fd, out = tempfile.mkstemp(prefix="suite_mon_", suffix=".json")
    os.close(fd)
    os.unlink(out)
    target = [only_test] if only_test else [tests_dir]
    try:
        p = subprocess.run(_cmd(out, target), stdout=subprocess.PIPE, stderr=subprocess.STDOUT, timeout=timeout_s,
                           cwd=os.path.dirname(tests_dir))
    except subprocess.TimeoutExpired:
        raise Inconclusive("repository test suite under monitors: watchdog after %d s" % timeout_s)
    if not os.path.exists(out):
        raise Inconclusive("repository test suite under monitors produced no report: %s" % p.stdout.decode(errors="replace")[-600:])
    with open(out) as f:
        data = json.load(f)
    os.unlink(out)
    res.evaluations += data.get("tests", 0)
    res.extra["suite_tests_run"] = data.get("tests", 0)
    if data.get("exitstatus", 1) != 0:
        res.obs("suite_exit_status_nonzero_%s" % data.get("exitstatus"))
    for name, n in data.get("monitors", {}).items():
        if any(name.startswith(pfx) for pfx in prefixes):
            res.mon("suite." + name, n)
    for h in data.get("hits", []):
        if any(h["monitor"].startswith(pfx) for pfx in prefixes):
            test = h.get("test", "?").split(" ")[0]
            res.violation("suite." + h["monitor"], h["kind"], "%s  [while running %s]" % (h["detail"], test), {"where": "suite"},
                          {"suite_test": test, "prefixes": prefixes})
    res.cls("suite", "tests=%d" % (data.get("tests", 0) // 50 * 50))
    return res


def replay(blob: Dict[str, Any]) -> Result:
    test = blob["suite_test"]
    path = os.path.join(os.path.dirname(os.path.join(common.REPO, "tests")), test) if not os.path.isabs(test) else test
    return run(blob.get("prefixes", [""]), only_test=path)


def attach(g: Dict[str, Any], prefix: str, floor_name: str, floor: int) -> None:
    """Add the suite stage to a check module's thorough tier: one more spec in plan(), handled by run_shard()/replay(),
    with a floor on the number of monitor evaluations the suite must have produced."""
    plan0, run0, replay0, floors0 = g["plan"], g["run_shard"], g["replay"], g.get("floors")

    def plan(tier: str, seed: int) -> List[Dict[str, Any]]:
        specs = plan0(tier, seed)
        if tier == "thorough":
            specs.append({"suite": True})
        return specs

    def run_shard(spec: Dict[str, Any]) -> Result:
        if spec.get("suite"):
            return run([prefix])
        return run0(spec)

    def replay_(blob: Dict[str, Any]) -> Result:
        if "suite_test" in blob:
            return replay(blob)
        return replay0(blob)

    def floors(tier: str) -> Dict[str, int]:
        f = dict(floors0(tier)) if floors0 else {}
        if tier == "thorough":
            f[floor_name] = floor
        return f

    g["plan"], g["run_shard"], g["replay"], g["floors"] = plan, run_shard, replay_, floors
