"""C20 - record identity congruence, exhaustive over a bounded vocabulary."""
from __future__ import annotations

import random
from typing import Any, Dict, List, Tuple

from ..common import Result, rng_for

PROPERTY_ID = "C20"
LEVEL = "exploration"
RULE = ("Vocabulary: 3 owner names x 3 spellings, 8 record kinds + questions, classes {1, 0x8001, 3}, (ttl, created) in "
        "{(120,1000),(4500,5000),(0,1000)}, per-kind rdata variants differing in one field at a time (address bytes, IPv6 scope "
        "None/1/2, alias/server in 3 spellings, SRV priority/weight/port, TXT bytes, HINFO cpu/os incl. case, NSEC next name incl. "
        "case and rdtypes order/content). ALL ordered pairs are evaluated (thorough; quick: every pair whose independent canonical "
        "keys are equal plus a 1-in-k stratified sample of the rest). Expected identity is an independent canonical key; monitors: "
        "== agrees, equal => equal hash, symmetry, != is the negation, set / DNSRRSet.lookup / DNSRRSet.suppresses / DNSRecord.suppressed_by / DNSOutgoing.add_answer / "
        "DNSCache.async_get_unique / DNSCache.get membership agree. Distinct = distinct (kind_a, kind_b, differing-field, "
        "expected) classes.")
ASSUMPTIONS = ["identity code has no size-dependent branches, so a bounded vocabulary is representative"]
EXHAUSTIVE = {"quick": False, "thorough": True}

NAMES = [["a.local.", "A.local.", "a.LOCAL."], ["b.local.", "B.local.", "b.Local."], ["_http._tcp.local.", "_HTTP._tcp.local.", "_http._TCP.LOCAL."],
         # letters outside ASCII fold like any other letter (the library compares str.lower() forms) ...
         ["éa.local.", "Éa.local.", "ÉA.LOCAL."],
         # ... but nothing more than lower(): 'ß' is not 'ss' (casefold would say so)
         ["straße.local.", "Straße.LOCAL.", "strasse.local."]]
CLASSES = [1, 0x8001, 3]
TTLC = [(120, 1000.0), (4500, 5000.0), (0, 1000.0)]
TARGETS = ["t.local.", "T.local.", "t.LOCAL.", "u.local.", "é.local.", "É.local."]


def floors(tier):
    return {"c20.eq": 1000000 if tier == "quick" else 8000000, "c20.hash": 30000, "c20.behaviour": 30000}


def plan(tier, seed):
    n = 16 if tier == "quick" else 32
    return [{"seed": seed, "shard": i, "n_shards": n, "tier": tier} for i in range(n)]


def build_vocab() -> List[Tuple[Any, Tuple, Dict[str, Any]]]:
    """Returns [(object, canonical_key, fields)]"""
    import zeroconf._dns as d
    out: List[Tuple[Any, Tuple, Dict[str, Any]]] = []

    def add(obj: Any, kind: str, name: str, type_: int, cls: int, rd: Tuple, fields: Dict[str, Any]) -> None:
        key = (kind, name.lower(), type_, cls & 0x7FFF, rd)
        f = dict(fields, kind=kind, name=name, type=type_, cls=cls)
        out.append((obj, key, f))

    for fam in NAMES:
        for name in fam:
            for cls in CLASSES:
                # questions
                for t in (1, 12, 255):
                    add(d.DNSQuestion(name, t, cls), "Q", name, t, cls, (), {"rd": ()})
                for ttl, created in TTLC:
                    base = {"ttl": ttl, "created": created}
                    for addr in (b"\x01\x02\x03\x04", b"\x01\x02\x03\x05"):
                        add(d.DNSAddress(name, 1, cls, ttl, addr, created=created), "ADDR", name, 1, cls, (addr, None), dict(base, rd=("addr", addr)))
                    for addr in (b"\xfe\x80" + b"\0" * 13 + b"\x01", b"\xfe\x80" + b"\0" * 13 + b"\x02"):
                        for scope in (None, 0, 1, 2):
                            add(d.DNSAddress(name, 28, cls, ttl, addr, scope_id=scope, created=created), "ADDR", name, 28, cls,
                                (addr, scope), dict(base, rd=("addr6", addr, scope)))
                    for t in (12, 5):
                        for alias in TARGETS:
                            add(d.DNSPointer(name, t, cls, ttl, alias, created), "PTR", name, t, cls, (alias.lower(),), dict(base, rd=("alias", alias)))
                    for text in (b"", b"\x03a=b", b"\x03a=B", b"\x03A=b"):
                        add(d.DNSText(name, 16, cls, ttl, text, created), "TXT", name, 16, cls, (text,), dict(base, rd=("text", text)))
                    for prio, weight, port, server in ((0, 0, 80, "t.local."), (1, 0, 80, "t.local."), (0, 1, 80, "t.local."),
                                                       (0, 0, 81, "t.local."), (0, 0, 80, "T.local."), (0, 0, 80, "t.LOCAL."),
                                                       (0, 0, 80, "u.local.")):
                        add(d.DNSService(name, 33, cls, ttl, prio, weight, port, server, created), "SRV", name, 33, cls,
                            (prio, weight, port, server.lower()), dict(base, rd=("srv", prio, weight, port, server)))
                    for cpu, os_ in (("x", "y"), ("X", "y"), ("x", "Y"), ("x", "z")):
                        add(d.DNSHinfo(name, 13, cls, ttl, cpu, os_, created), "HINFO", name, 13, cls, (cpu, os_), dict(base, rd=("hinfo", cpu, os_)))
                    for nxt, types in (("a.local.", [1, 28]), ("a.local.", [28, 1]), ("A.local.", [1, 28]), ("a.local.", [1]),
                                       ("b.local.", [1, 28])):
                        add(d.DNSNsec(name, 47, cls, ttl, nxt, list(types), created), "NSEC", name, 47, cls, (nxt, tuple(sorted(types))),
                            dict(base, rd=("nsec", nxt, tuple(types))))
    return out


def differing(fa: Dict[str, Any], fb: Dict[str, Any]) -> str:
    if fa["kind"] != fb["kind"]:
        return "kind"
    diffs = []
    if fa["name"] != fb["name"]:
        diffs.append("case" if fa["name"].lower() == fb["name"].lower() else "name")
    if fa["type"] != fb["type"]:
        diffs.append("type")
    if fa["cls"] != fb["cls"]:
        diffs.append("flush" if (fa["cls"] & 0x7FFF) == (fb["cls"] & 0x7FFF) else "class")
    if fa.get("ttl") != fb.get("ttl"):
        diffs.append("ttl")
    if fa["rd"] != fb["rd"]:
        ra, rb = fa["rd"], fb["rd"]
        if len(ra) == len(rb) and all((x == y) or (isinstance(x, str) and isinstance(y, str) and x.lower() == y.lower()) for x, y in zip(ra, rb)):
            diffs.append("rdata-case")
        elif ra and ra[0] == "nsec" and ra[1] == rb[1] and sorted(ra[2]) == sorted(rb[2]):
            diffs.append("rdata-order")
        else:
            diffs.append("rdata")
    return "+".join(diffs) or "none"


def behaviour(d: Any, cachemod: Any, a: Any, b: Any, exp: bool, res: Result, replay: Dict[str, Any], fa: Dict, fb: Dict) -> None:
    res.mon("c20.behaviour")
    sig = {"kind_a": fa["kind"], "diff": differing(fa, fb)}
    try:
        in_set = b in {a}
    except Exception as e:
        res.violation("c20.behaviour", "set_membership_raised", repr(e), sig, replay)
        return
    if in_set != exp:
        res.violation("c20.behaviour", "set_membership", "(%r in {%r}) is %s, expected %s" % (b, a, in_set, exp), sig, replay)
    if fa["kind"] == "Q" or fb["kind"] == "Q":
        return
    rr = d.DNSRRSet([a])
    found = rr.lookup.get(b) is not None
    if found != exp:
        res.violation("c20.behaviour", "rrset_lookup", "DNSRRSet([a]).lookup.get(b) found=%s expected %s: a=%r b=%r" % (found, exp, a, b), sig, replay)
    sup = rr.suppresses(b)
    want_sup = exp and a.ttl > b.ttl / 2
    if sup != want_sup:
        res.violation("c20.behaviour", "rrset_suppresses", "suppresses=%s expected %s: a=%r b=%r" % (sup, want_sup, a, b), sig, replay)
    # the record-side spelling of the same rule (public API: DNSRecord.suppressed_by, DNSOutgoing.add_answer)
    class _Msg:
        def answers(self) -> List[Any]:
            return [a]
    sb = b.suppressed_by(_Msg())
    if sb != want_sup:
        res.violation("c20.behaviour", "record_suppressed_by", "b.suppressed_by(message listing a)=%s expected %s: a=%r b=%r" % (sb, want_sup, a, b), sig, replay)
    from zeroconf._protocol.outgoing import DNSOutgoing
    o = DNSOutgoing(0x8400)
    o.add_answer(_Msg(), b)
    if (len(o.answers) == 0) != want_sup:
        res.violation("c20.behaviour", "add_answer_suppression", "DNSOutgoing.add_answer(message listing a, b) kept %d answer(s), suppression expected %s: a=%r b=%r" % (
            len(o.answers), want_sup, a, b), sig, replay)
    if (b in rr.lookup_set()) != exp:
        res.violation("c20.behaviour", "rrset_lookup_set", "lookup_set membership wrong: a=%r b=%r" % (a, b), sig, replay)
    cache = cachemod.DNSCache()
    cache._async_add(a)
    got = cache.async_get_unique(b)
    if (got is not None) != exp or (exp and got is not a):
        res.violation("c20.behaviour", "cache_get_unique", "async_get_unique -> %r expected %s: a=%r b=%r" % (got, exp, a, b), sig, replay)
    got2 = cache.get(b)
    if (got2 is not None) != exp:
        res.violation("c20.behaviour", "cache_get", "cache.get -> %r expected %s: a=%r b=%r" % (got2, exp, a, b), sig, replay)
    # re-adding an equal record must replace, not duplicate
    cache._async_add(b)
    n = len(cache.entries_with_name(a.name))
    if n != (1 if exp else 2) and a.key == b.key:
        res.violation("c20.behaviour", "cache_add_dedup", "after adding a then b the name bucket has %d entries (expected %d)" % (n, 1 if exp else 2), sig, replay)


def run_shard(spec):
    import zeroconf._cache as cachemod
    import zeroconf._dns as d
    res = Result()
    vocab = build_vocab()
    n = len(vocab)
    rng = rng_for("c20", spec["seed"], spec["shard"])
    quick = spec["tier"] == "quick"
    sample_k = 8 if quick else 1
    res.extra["const_vocabulary_objects"] = n
    res.extra["const_ordered_pairs_total"] = n * n
    # index by key so quick mode finds every expected-equal pair
    for i in range(spec["shard"], n, spec["n_shards"]):
        a, ka, fa = vocab[i]
        ha = hash(a)
        for j in range(n):
            b, kb, fb = vocab[j]
            exp = ka == kb
            if not exp and sample_k > 1:
                # stratified: always keep pairs that share lower-cased name+kind (near misses), sample the rest
                near = ka[0] == kb[0] and ka[1] == kb[1]
                if not near and rng.randrange(sample_k):
                    continue
            res.evaluations += 1
            res.mon("c20.eq")
            replay = {"i": i, "j": j}
            try:
                got = a == b
                got_r = b == a
                ne = a != b
            except Exception as e:
                res.violation("c20.eq", "eq_raised", "%r == %r raised %r" % (a, b, e), {"kind_a": fa["kind"], "kind_b": fb["kind"]}, replay)
                continue
            diff = differing(fa, fb)
            sig = {"kind_a": fa["kind"], "kind_b": fb["kind"], "diff": diff, "expected": exp}
            if got is not exp:
                res.violation("c20.eq", "eq_disagrees", "(%r == %r) is %r, expected %r (diff: %s)" % (a, b, got, exp, diff), sig, replay)
            if got_r is not got:
                res.violation("c20.eq", "asymmetric", "a==b is %r but b==a is %r: %r %r" % (got, got_r, a, b), sig, replay)
            if ne is got:
                res.violation("c20.eq", "ne_not_negation", "a!=b is %r while a==b is %r" % (ne, got), sig, replay)
            if exp or got:
                res.mon("c20.hash")
                if ha != hash(b):
                    res.violation("c20.hash", "equal_but_hash_differs", "%r and %r are the same record but hash differently" % (a, b), sig, replay)
            if exp or got or (j % 97 == i % 97):
                behaviour(d, cachemod, a, b, exp, res, replay, fa, fb)
            res.cls(fa["kind"], fb["kind"], diff, "same" if exp else "differ")
    # TTL / created / flush never affect identity: covered by vocabulary (ttl, created, cls bit variants share keys)
    res.sample({"vocabulary": n, "example_objects": [repr(vocab[k][0]) for k in (0, 5, 40, n - 1)]})
    return res


def replay(blob):
    import zeroconf._cache as cachemod
    import zeroconf._dns as d
    res = Result()
    vocab = build_vocab()
    a, ka, fa = vocab[blob["i"]]
    b, kb, fb = vocab[blob["j"]]
    exp = ka == kb
    res.evaluations = 1
    if (a == b) is not exp:
        res.violation("c20.eq", "eq_disagrees", "(%r == %r) expected %r" % (a, b, exp), {"kind_a": fa["kind"], "kind_b": fb["kind"]}, blob)
    if exp and hash(a) != hash(b):
        res.violation("c20.hash", "equal_but_hash_differs", "%r %r" % (a, b), {}, blob)
    behaviour(d, cachemod, a, b, exp, res, blob, fa, fb)
    return res


# thorough tier only: the repository's own test suite, run under the invariant monitors of vlib/suite_monitors.py
from . import _suite  # noqa: E402
_suite.attach(globals(), "c20.", "suite.c20.identity", 700)
