from . import _cache

PROPERTY_ID = "C06"
LEVEL = "exploration"
RULE = ("Same harness and histories as C05 plus listener churn: 0..5 spy RecordUpdateListeners, added/removed between "
        "datagrams and from inside callbacks (remove self, add another, remove another). For every datagram the model computes "
        "the expected (new, previous) list, the mid state (refreshes and flush marks applied, nothing added/removed) and the "
        "final state; each spy registered at datagram start and not removed during it must get exactly one update call with "
        "that list (previous being the cached object), then exactly one complete call; cache snapshots taken inside each "
        "callback through public lookups must equal mid/final state; a spy removed during the first round gets no complete call, "
        "one registered during the first round gets exactly one. Distinct = (record relation classes, #listeners, churn).")
ASSUMPTIONS = ["listeners registered at datagram start and not removed while it is processed are fully constrained; for the others only the second-round call count is judged"]


def floors(tier):
    q = tier == "quick"
    return {"c06.contract": 30000 if q else 3000000, "c06.mid_state": 20000 if q else 2000000, "c06.final_state": 40000 if q else 3000000,
            "c06.contract.churn": 500 if q else 50000}


def plan(tier, seed):
    return _cache.plan("C06", tier, seed)


def run_shard(spec):
    return _cache.run_shard(spec)


def replay(blob):
    return _cache.replay("C06", blob)
