"""C07 - end-to-end discovery converges to the set of registered services (single-loss fault enumeration)."""
from __future__ import annotations

import asyncio
import random
from typing import Any, Dict, List, Optional, Set, Tuple

from .. import respond as R
from .. import simnet, wire
from ..common import Result, rng_for, tb
from ..models import Svc

PROPERTY_ID = "C07"
LEVEL = "fault_enumeration"
RULE = ("(two_links) a multi-homed responder - one IPv6 interface and sender socket on each of two links, one wildcard listen "
        "socket - registers / updates / withdraws 1..3 services, a browser host on each link (single or split sockets); the simulated "
        "kernel routes a multicast datagram by the scope id of its destination when given, else by the socket's interface; both "
        "browsers must converge and resolve (no loss, 15 ms jitter). (main) "
        "Scenario = 2..5 real instances on one simulated link (mixed single/split socket layouts), 1..6 services of 1..3 types, "
        "browsers started before, during and after registrations, a timeline of register / update / unregister / close at random "
        "virtual times over ~20 s (optionally a late browser started 0.2..1.05 x the cached pointer TTL later, i.e. minutes to more "
        "than an hour, when SRV/TXT/address records have expired and the pointer is stale or gone), and an application-style service-info lookup (3 s) spawned from every Added callback. Each "
        "scenario is first run loss-free (uniform 0..100 ms per-receiver delay hence reordering, 0..20 % duplication, the "
        "library's own seeded jitter); its N transmitted datagrams are numbered; then it is re-run with identical seeds once per "
        "chosen k with datagram k dropped - for every receiver or for one receiver (quick: a stratified sample of k; thorough: "
        "every k). Oracle at T_last + 15 s (T_last = completion of the last scripted operation): each browser on an open host "
        "reports exactly the instances of its type registered on open hosts (Added and not Removed, case-insensitive); every "
        "lookup started from an Added callback of a service that stayed registered returned True with the advertised host, "
        "port, TXT and a non-empty subset of the advertised addresses. 15 % of the scenarios are evaluated a second time 1.15 x the "
        "longest pointer TTL later (more than an hour): refresh queries and answers must have kept every registered instance "
        "alive in every browser. Distinct = (#hosts, browser phase, change kinds, class of "
        "the dropped datagram, drop scope, duplication) classes.")
ASSUMPTIONS = ["'eventually' is restated as: 15 virtual seconds after the last scripted operation completed",
               "exactly one datagram is lost per run; delays <= 100 ms; no partitions",
               "service names are unique across hosts (conflict handling is C09's subject)"]

TYPES = ["_http._tcp.local.", "_ipp._tcp.local.", "_osc._udp.local."]
SETTLE_MS = 15000.0


def floors(tier):
    q = tier == "quick"
    return {"c07.converged": 8000 if q else 300000, "c07.lookup": 3000 if q else 100000,
            "c07.two_links": 200 if q else 8000, "c07.two_links.lookup": 150 if q else 6000}


def plan(tier, seed):
    if tier == "quick":
        n, per, drops = 16, 25, 20
    else:
        n, per, drops = 64, 40, 0      # 0 = every k
    return [{"seed": seed, "shard": i, "per": per, "drops": drops, "tier": tier, "two_links": 6 if tier == "quick" else 60} for i in range(n)]


def gen_scenario(rng: random.Random) -> Dict[str, Any]:
    nh = rng.choice([2, 2, 3, 4, 5])
    hosts = [{"name": "H%d" % i, "ip4": "10.0.0.%d" % (i + 1), "ip6": ("fe80::%d" % (i + 1)) if rng.random() < 0.4 else None, "layout": None} for i in range(nh)]
    for h in hosts:
        h["layout"] = "split" if h["ip6"] else rng.choice(["single", "split"])
    nsvc = rng.choice([1, 2, 3, 4, 6])
    ntypes = rng.choice([1, 2, 3])
    ops: List[Dict[str, Any]] = []
    flap = False
    host_addrs: Dict[str, Tuple[List[bytes], List[bytes]]] = {}
    for i in range(nsvc):
        h = rng.randrange(nh)
        tp = TYPES[rng.randrange(ntypes)]
        s = R.gen_service(rng, type_=tp, min_ttl=10)
        s.name = "svc%d-%s.%s" % (i, "abcde"[h], tp)
        s.server = "host%d-%d.local." % (h, i if rng.random() < 0.6 else 0)
        # one host name has one address set for the whole scenario (services sharing it advertise the same addresses)
        if s.server in host_addrs:
            s.addrs4, s.addrs6 = host_addrs[s.server]
        else:
            host_addrs[s.server] = (list(s.addrs4), list(s.addrs6))
        t = float(rng.choice([0, 100, 900, 2500, 6000, 9000]))
        ops.append({"t": t, "op": "register", "host": h, "svc": i, "spec": s})
        fate = rng.choice(["stay", "stay", "update", "unregister", "update+unregister", "unregister+register"])
        # the next operation may fall inside the announcement phase of the previous one (announcements at +350/+575/+800 ms
        # after a registration starts, +0/+225/+450 ms after an update)
        tt = t + rng.choice([400.0, 480.0, 600.0, 700.0, 1200.0, 2500.0, 5000.0])
        if "update" in fate:
            s2 = R.gen_service(rng, name=s.name, type_=tp, min_ttl=10)
            s2.server = s.server
            s2.addrs4, s2.addrs6 = host_addrs[s.server]
            ops.append({"t": tt, "op": "update", "host": h, "svc": i, "spec": s2})
            tt += rng.choice([40.0, 100.0, 260.0, 300.0, 1200.0, 3000.0])
        if "unregister" in fate:
            ops.append({"t": tt, "op": "unregister", "host": h, "svc": i})
        if fate == "unregister+register":
            # the same instance name comes back shortly after it was withdrawn (a restarted application)
            s3 = R.gen_service(rng, name=s.name, type_=tp, min_ttl=10)
            s3.server = s.server
            s3.addrs4, s3.addrs6 = host_addrs[s.server]
            ops.append({"t": tt + rng.choice([300.0, 1000.0, 3000.0, 8000.0]), "op": "register", "host": h, "svc": i, "spec": s3})
            flap = True
    nb = rng.choice([1, 2, 3, 4])
    for b in range(nb):
        ops.append({"t": float(rng.choice([0, 50, 400, 1000, 3000, 7000, 12000])), "op": "browse", "host": rng.randrange(nh), "type": TYPES[rng.randrange(ntypes)], "bid": b})
    # a browser whose second (QM) start-up query reaches the owner just before a service is withdrawn: its answer is still
    # waiting in the aggregation queue when the goodbyes go out
    for o in [x for x in ops if x["op"] == "unregister"]:
        if rng.random() < 0.6:
            nb += 1
            tp = [x["spec"].type for x in ops if x["op"] == "register" and x["svc"] == o["svc"]][0]
            ops.append({"t": max(0.0, o["t"] - rng.choice([1100.0, 1130.0, 1150.0, 1180.0])), "op": "browse", "host": rng.randrange(nh), "type": tp, "bid": nb + 10})
    if rng.random() < 0.35 and nh > 2:
        ops.append({"t": float(rng.choice([4000, 8000, 13000])), "op": "close", "host": rng.randrange(nh)})
    # a late browser: started minutes to an hour after the last change, on a host whose cache may still hold the (by then
    # stale, or expired-and-purged) records from the announcements - fractions of the cached pointer TTL (floor 1125 s)
    if rng.random() < 0.3:
        regs = [x for x in ops if x["op"] == "register"]
        o = rng.choice(regs)
        eff = max(float(o["spec"].other_ttl), 1125.0) * 1000.0
        last = max(x["t"] for x in ops)
        nb += 1
        when = last + 2000.0 + eff * rng.choice([0.2, 0.45, 0.55, 0.7, 0.8, 0.97, 1.05])
        if rng.random() < 0.3:
            # ... or inside the up to 10 s between the expiry of the pointer heard in the last announcement of that service and
            # the next run of the periodic purge (third announcement: +800 ms after a registration starts, +450 ms after an update)
            lasts = [x for x in ops if x["op"] in ("register", "update") and x["svc"] == o["svc"]]
            lo = max(lasts, key=lambda x: x["t"])
            eff = max(float(lo["spec"].other_ttl), 1125.0) * 1000.0
            when = max(last + 100.0, lo["t"] + (800.0 if lo["op"] == "register" else 450.0) + eff + rng.uniform(150.0, 9500.0))
        ops.append({"t": when, "op": "browse", "host": rng.randrange(nh), "type": o["spec"].type, "bid": nb + 30, "late": True})
    ops.sort(key=lambda o: o["t"])
    # long horizon: a second evaluation after every pointer learned so far would have expired unless it was refreshed
    return {"hosts": hosts, "ops": ops, "dup_p": rng.choice([0.0, 0.0, 0.1, 0.2]), "max_delay": 100.0, "long_horizon": rng.random() < (0.5 if flap else 0.12)}


def execute(sc: Dict[str, Any], seed: int, drop_index: Optional[int], drop_receiver: Optional[str]) -> Dict[str, Any]:
    from zeroconf import ServiceListener
    from zeroconf.asyncio import AsyncServiceBrowser, AsyncServiceInfo
    policy = simnet.Policy(random.Random(seed ^ 0x1234), max_delay_ms=sc["max_delay"], dup_p=sc["dup_p"], drop_index=drop_index, drop_receiver=drop_receiver)
    if sc.get("witness_policy"):
        policy.fixed_unicast_ms = sc["witness_policy"]["unicast_ms"]
        policy.fixed_multicast_ms = sc["witness_policy"]["multicast_ms"]
    state: Dict[Tuple[int, str], str] = {}
    cb_log: List[Tuple] = []
    lookups: List[Dict[str, Any]] = []
    versions: Dict[str, List[Tuple[float, Svc]]] = {}
    registered: Dict[str, Dict[str, Any]] = {}
    out: Dict[str, Any] = {}
    with simnet.Sim(seed & 0xFFFF, policy=policy) as sim:
        class BL(ServiceListener):
            def __init__(self, bid: int, zc: Any):
                self.bid = bid
                self.zc = zc

            def add_service(self, zc: Any, t: str, n: str) -> None:
                key = (self.bid, n.lower())
                cb_log.append((sim.now_ms(), self.bid, "A", n))
                out.setdefault("alt", []).append((key, "A", state.get(key)))
                state[key] = "A"
                rec = {"bid": self.bid, "name": n, "type": t, "start": sim.now_ms(), "done": None, "result": None, "fields": None}
                lookups.append(rec)

                async def look() -> None:
                    info = AsyncServiceInfo(t, n)
                    try:
                        r = await info.async_request(zc, 3000)
                    except Exception as e:  # noqa
                        rec["result"] = "exc:%r" % (e,)
                        rec["done"] = sim.now_ms()
                        return
                    from zeroconf import IPVersion
                    rec["result"] = bool(r)
                    rec["done"] = sim.now_ms()
                    rec["fields"] = {"server": info.server, "port": info.port, "text": info.text, "addrs": set(info.addresses_by_version(IPVersion.All))}
                asyncio.ensure_future(look())

            def remove_service(self, zc: Any, t: str, n: str) -> None:
                key = (self.bid, n.lower())
                cb_log.append((sim.now_ms(), self.bid, "R", n))
                out.setdefault("alt", []).append((key, "R", state.get(key)))
                state[key] = "R"

            def update_service(self, zc: Any, t: str, n: str) -> None:
                cb_log.append((sim.now_ms(), self.bid, "U", n))

        async def main():
            hosts = []
            azcs = []
            for h in sc["hosts"]:
                sh = sim.net.add_host(h["name"], h["ip4"], h["ip6"], layout=h["layout"])
                hosts.append(sh)
                azcs.append(await sim.start_host(sh))
            T0 = sim.now_ms()
            closed: Set[int] = set()
            infos: Dict[int, Any] = {}
            browsers: Dict[int, Dict[str, Any]] = {}
            done_times: List[float] = []

            async def run_op(o: Dict[str, Any]) -> None:
                await sim.sleep_until_ms(T0 + o["t"])
                h = o["host"]
                if h in closed:
                    return
                zc = azcs[h].zeroconf
                try:
                    if o["op"] == "register":
                        info = R.make_info(o["spec"])
                        infos[o["svc"]] = info
                        task = await zc.async_register_service(info)
                        registered[o["spec"].name.lower()] = {"host": h, "type": o["spec"].type}
                        versions.setdefault(o["spec"].name.lower(), []).append((sim.now_ms(), o["spec"]))
                        await task
                    elif o["op"] == "update":
                        if o["spec"].name.lower() not in registered:
                            return
                        info = R.make_info(o["spec"])
                        infos[o["svc"]] = info
                        versions.setdefault(o["spec"].name.lower(), []).append((sim.now_ms(), o["spec"]))
                        task = await zc.async_update_service(info)
                        await task
                    elif o["op"] == "unregister":
                        info = infos.get(o["svc"])
                        if info is None or info.name.lower() not in registered:
                            return
                        registered.pop(info.name.lower(), None)
                        task = await zc.async_unregister_service(info)
                        await task
                    elif o["op"] == "browse":
                        browsers[o["bid"]] = {"host": h, "type": o["type"], "obj": AsyncServiceBrowser(zc, o["type"], listener=BL(o["bid"], zc))}
                    elif o["op"] == "close":
                        closed.add(h)
                        for k in [k for k, v in registered.items() if v["host"] == h]:
                            registered.pop(k)
                        await azcs[h].async_close()
                except Exception as e:  # noqa
                    out.setdefault("op_errors", []).append("%s: %r" % (o["op"], e))
                done_times.append(sim.now_ms())

            # operations on one service are sequential in time by construction; run all as tasks
            await asyncio.gather(*[run_op(o) for o in sc["ops"]])
            out["T_last"] = max(done_times) if done_times else sim.now_ms()
            await sim.sleep_until_ms(out["T_last"] + SETTLE_MS)
            out["T_eval"] = sim.now_ms()
            out["closed"] = set(closed)
            out["browsers"] = {bid: {"host": b["host"], "type": b["type"]} for bid, b in browsers.items()}
            out["registered"] = dict(registered)
            out["state"] = dict(state)
            if sc.get("long_horizon"):
                ttls = [max(float(o["spec"].other_ttl), 1125.0) for o in sc["ops"] if o["op"] in ("register", "update")]
                await sim.sleep_ms(1000.0 * max(ttls or [1125.0]) * 1.15)
                out["T_eval_long"] = sim.now_ms()
                out["state_long"] = dict(state)
            for bid, b in browsers.items():
                if b["host"] not in closed:
                    await b["obj"].async_cancel()
            for i, a in enumerate(azcs):
                if i not in closed:
                    await a.async_close()

        sim.run(main())
        out["tx_count"] = sim.net.tx_count
        out["deliveries"] = [{"t": d["t"], "host": d["host"], "fd": d["fd"], "sock": d["sock"], "data": d["data"], "tx": d["tx"], "src": d.get("src")} for d in sim.net.deliveries]
        out["trace_kinds"] = [classify_datagram(e) for e in sim.net.trace]
        if sc.get("keep_trace"):
            out["trace"] = list(sim.net.trace)
        out["escapes"] = [e for e in sim.net.escapes if "was destroyed but it is pending" not in str(e.get("message"))]
    out["lookups"] = lookups
    out["versions"] = versions
    out["cb_log"] = cb_log
    return out


def classify_datagram(e: Dict[str, Any]) -> str:
    m, _ = wire.try_parse(e["data"], strict=False)
    if m is None:
        return "?"
    if not m.is_response:
        if m.authorities:
            return "probe"
        t = {q.type for q in m.questions}
        return "browse-query" if t == {12} else "lookup-query"
    ttl0 = [r for r in m.answers if r.ttl == 0]
    if ttl0:
        return "goodbye"
    if not e["mcast"]:
        return "unicast-answer"
    kinds = {r.type for r in m.answers}
    if {12, 33, 16} <= kinds:
        return "announcement"
    return "answer"


def judge(res: Result, sc: Dict[str, Any], out: Dict[str, Any], viol, dropped: str, scope: str) -> None:
    closed = out["closed"]
    for bid, b in out["browsers"].items():
        if b["host"] in closed:
            continue
        res.mon("c07.converged")
        want = {n for n, v in out["registered"].items() if v["type"] == b["type"] and v["host"] not in closed}
        live = {k[1] for k, v in out["state"].items() if k[0] == bid and v == "A"}
        if live != want:
            mech = "-"
            ghosts = sorted(live - want)
            if ghosts and not (want - live):
                mech = ghost_mechanism(out, sc["hosts"][b["host"]]["name"], b["type"], ghosts)
            viol("c07.converged", "browser_not_converged", "browser %d (type %s on %s) reports %r, registered on the link: %r; dropped=%s (%s); mechanism=%s" % (
                bid, b["type"], sc["hosts"][b["host"]]["name"], sorted(live), sorted(want), dropped, scope, mech),
                diff=("ghost" if live - want else "missing"), dropped=dropped, mechanism=mech)
    if "state_long" in out:
        # still-registered instances are kept alive by the browsers' refresh queries and the owners' answers: after more than
        # one full pointer TTL every browser must still report exactly the registered instances
        for bid, b in out["browsers"].items():
            if b["host"] in closed:
                continue
            res.mon("c07.converged_long")
            want = {n for n, v in out["registered"].items() if v["type"] == b["type"] and v["host"] not in closed}
            live = {k[1] for k, v in out["state_long"].items() if k[0] == bid and v == "A"}
            if live != want:
                viol("c07.converged", "browser_not_converged_after_ttl", "browser %d (type %s on %s) reports %r %.0f s after the last change, registered on the link: %r; dropped=%s (%s)" % (
                    bid, b["type"], sc["hosts"][b["host"]]["name"], sorted(live), (out["T_eval_long"] - out["T_last"]) / 1000.0, sorted(want), dropped, scope),
                    diff=("ghost" if live - want else "missing"), dropped=dropped)
    for key, kind, prev in out.get("alt", []):
        if (kind == "A" and prev == "A") or (kind == "R" and prev != "A"):
            viol("c07.converged", "callbacks_do_not_alternate", "browser %d: %s(%s) after %s" % (key[0], kind, key[1], prev), dropped=dropped)
    for lk in out["lookups"]:
        name = lk["name"].lower()
        b = out["browsers"].get(lk["bid"])
        if b is None or b["host"] in closed:
            continue
        if name not in out["registered"] or out["registered"][name]["host"] in closed:
            continue     # the service went away: nothing is promised
        vers = out["versions"].get(name, [])
        if not vers:
            continue
        # only lookups started after the last version was published are held to it; earlier ones may see either version
        res.mon("c07.lookup")
        if lk["result"] is not True:
            viol("c07.lookup", "lookup_failed", "lookup for %s from the Added callback returned %r (started %.0f ms before evaluation); dropped=%s (%s)" % (
                lk["name"], lk["result"], out["T_eval"] - lk["start"], dropped, scope), dropped=dropped)
            continue
        f = lk["fields"]
        # caches may legitimately lag behind an update for up to the old records' TTL: every field must come from *some*
        # advertised version of the service (not necessarily all from the same one)
        ok = bool(f["addrs"]) and any((f["server"] or "").lower() == s.server.lower() and f["port"] == s.port for _, s in vers) \
            and (any(f["text"] == s.text for _, s in vers) or (f["text"] == b"" and txt_may_have_expired(lk, vers))) and any(f["addrs"] <= (set(s.addrs4) | set(s.addrs6)) for _, s in vers)
        # ... but not arbitrarily: of the copies of a record set (TXT, SRV) that the host has *processed*, the one received last
        # is the one a lookup must report (F34) as long as it has not expired.  "Processed" is reconstructed from the datagrams
        # delivered to that host, never from the library's cache: a datagram with the bytes of the one processed last on the same
        # socket, from the same sender, less than a second earlier, is dropped by the listener's duplicate guard (C16) and
        # counts as not received.
        host_name = sc["hosts"][b["host"]]["name"]
        last_t, last_s = vers[-1]
        if ok:
            for kind, got, latest in (("TXT", f["text"], last_s.text), ("SRV", f["port"], last_s.port)):
                copies = processed_copies(out, host_name, name, kind, lk["start"])
                if copies is None:
                    continue                     # a goodbye was processed in between: nothing is promised about older copies
                live = [c for c in copies if c["processed"]]
                if not live:
                    continue
                L = live[-1]
                if L["t"] + 1000.0 * L["ttl"] <= lk["start"] + 1000.0:
                    continue                     # the copy received last has (nearly) expired: an older one may legitimately show
                res.mon("c07.lookup_latest")
                if got != L["value"]:
                    viol("c07.lookup", "lookup_not_latest_received", "lookup for %s on %s started at %.0f reports %s %r, but the copy this host processed last (at %.0f, TTL %d) "
                         "carried %r; dropped=%s (%s)" % (lk["name"], host_name, lk["start"], kind, got, L["t"], L["ttl"], L["value"], dropped, scope), dropped=dropped, rtype=kind)
                    continue
                # the copy received last is not the version advertised now although all three announcements of that version
                # were delivered long ago (2.5 s): only possible when the later ones were not processed
                if lk["start"] >= last_t + 2500.0 and got != latest and any(v_s is not last_s and (v_s.text if kind == "TXT" else v_s.port) == got for _, v_s in vers):
                    later_dropped = [c for c in copies if c["t"] >= L["t"] and not c["processed"] and c["value"] == latest]
                    if not any(c["t"] + 1000.0 * c["ttl"] > lk["start"] + 1000.0 for c in copies if c["value"] == latest):
                        continue                 # every copy of the new version would have expired by now, processed or not
                    mech = "update_repeats_suppressed_as_duplicates" if later_dropped else "other"
                    viol("c07.lookup", "lookup_superseded_data", "lookup for %s on %s started %.1f s after the latest version was published resolved %s %r, published then: %r "
                         "(all versions: %r); the copy processed last on that host (at %.0f) is the superseded one, %d later copies of the new version were dropped as duplicates; "
                         "dropped=%s (%s); mechanism=%s" % (lk["name"], host_name, (lk["start"] - last_t) / 1000.0, kind, got, latest, [(round(t), s_.port, s_.text) for t, s_ in vers],
                                                             L["t"], len(later_dropped), dropped, scope, mech), dropped=dropped, mechanism=mech)
        if not ok:
            viol("c07.lookup", "lookup_wrong_data", "lookup for %s resolved %r, advertised versions %r" % (lk["name"], {k: (sorted(v) if isinstance(v, set) else v) for k, v in f.items()},
                                                                                                          [(s.server, s.port, s.text, sorted(s.addrs4 + s.addrs6)) for _, s in vers]), dropped=dropped)


def ghost_mechanism(out: Dict[str, Any], host: str, type_: str, ghosts: List[str]) -> str:
    """Classify why a withdrawn instance is still reported (for the known-findings match; no seeds or values involved).
    'goodbye_repeats_suppressed_as_duplicates': at the browsing host a positive-TTL PTR of the instance was processed AFTER the
    first goodbye, and every goodbye delivered after it was byte-identical to the datagram last processed on its socket less
    than a second before - i.e. dropped by the listener's duplicate-datagram guard (which keeps its state per socket)."""
    verdicts = []
    for g in ghosts:
        first_goodbye = None
        positive_after = None
        goodbye_processed_after_positive = False
        goodbye_seen_after_positive = False
        for d, m, processed in guard_walk(out, host):
            if m is None or not m.is_response:
                continue
            for r in m.answers + m.additionals:
                ident = R.ident_of_wire(r)
                if ident[0] == "PTR" and ident[1] == type_.lower() and ident[2][0] == g:
                    if r.ttl == 0:
                        if first_goodbye is None and processed:
                            first_goodbye = d["t"]
                        if positive_after is not None:
                            goodbye_seen_after_positive = True
                            if processed:
                                goodbye_processed_after_positive = True
                    elif processed and first_goodbye is not None:
                        positive_after = d["t"]
                        goodbye_seen_after_positive = False
                        goodbye_processed_after_positive = False
        if positive_after is not None and goodbye_seen_after_positive and not goodbye_processed_after_positive:
            verdicts.append("goodbye_repeats_suppressed_as_duplicates")
        else:
            verdicts.append("other")
    return verdicts[0] if len(set(verdicts)) == 1 else "mixed"


def guard_walk(out: Dict[str, Any], host: str, until: Optional[float] = None):
    """Yield (delivery, parsed message or None, processed) for the datagrams delivered to `host`, with the listener's duplicate
    guard as the model: per socket, a datagram with the bytes of the one processed last, from the same sender, less than a
    second later, is dropped unless the one processed last was a query with a QU question."""
    last_on_fd: Dict[int, Tuple[bytes, float, Any, bool]] = {}
    for d in out.get("deliveries", []):
        if d["host"] != host or (until is not None and d["t"] > until):
            continue
        m, _ = wire.try_parse(d["data"], strict=False)
        prev = last_on_fd.get(d["fd"])
        src = tuple(d["src"][:2]) if d.get("src") else None
        dup = prev is not None and prev[0] == d["data"] and d["t"] - 1000.0 < prev[1] and not prev[3] and prev[2] == src
        if not dup:
            qu_query = bool(m is not None and not m.is_response and any(q.cls & 0x8000 for q in m.questions))
            last_on_fd[d["fd"]] = (d["data"], d["t"], src, qu_query)
        yield d, m, not dup


def processed_copies(out: Dict[str, Any], host: str, name: str, kind: str, until: float) -> Optional[List[Dict[str, Any]]]:
    """Positive-TTL copies of the TXT (value = text) or SRV (value = port) record set of `name` delivered to `host` up to `until`,
    in delivery order, each marked processed or dropped by the duplicate guard (per socket: same bytes, same sender, less than
    a second after the datagram processed last, unless that was a query with a QU question).  None when a goodbye for the
    record set was processed - then older copies are gone from the cache and no order is promised."""
    want = 16 if kind == "TXT" else 33
    copies: List[Dict[str, Any]] = []
    for d, m, processed in guard_walk(out, host, until):
        if m is None or not m.is_response:
            continue
        for r in m.answers + m.additionals:
            if r.type != want or r.name.text().lower() != name:
                continue
            if r.ttl == 0:
                if processed:
                    return None
                continue
            copies.append({"t": d["t"], "processed": processed, "ttl": r.ttl, "value": (r.rdata if kind == "TXT" else r.rdata[2])})
    return copies


def txt_may_have_expired(lk: Dict[str, Any], vers: List[Tuple[float, Svc]]) -> bool:
    """A lookup is complete as soon as an address is known (C18); a TXT record whose TTL ran out since it was last announced
    is then reported as empty.  Only in that situation is an empty TXT accepted here."""
    return any(lk["start"] - t >= s.other_ttl * 1000.0 - 1000.0 for t, s in vers)


def run_scenario(res: Result, seed: int, n_drops: int) -> None:
    rng = random.Random(seed)
    sc = gen_scenario(rng)
    desc = {"hosts": sc["hosts"], "dup_p": sc["dup_p"], "ops": [{k: (v.brief() if isinstance(v, Svc) else v) for k, v in o.items()} for o in sc["ops"]]}

    def mk_viol(drop: Any) -> Any:
        def viol(monitor: str, kind: str, detail: str, **sig: Any) -> None:
            res.violation(monitor, kind, detail, sig, {"seed": seed, "drop": drop, "n_drops": n_drops, "scenario": desc})
        return viol

    try:
        ref = execute(sc, seed, None, None)
    except Exception as e:
        mk_viol(None)("c07.converged", "exception", "exception in reference run: %r\n%s" % (e, tb()), exc_type=type(e).__name__)
        return
    res.evaluations += 1
    if ref["escapes"]:
        mk_viol(None)("c07.converged", "loop_exception", repr(ref["escapes"][0])[:800])
    judge(res, sc, ref, mk_viol(None), "none", "-")
    N = ref["tx_count"]
    kinds = ref["trace_kinds"]
    res.extra["datagrams_in_reference_runs"] = res.extra.get("datagrams_in_reference_runs", 0) + N
    phases = sorted({("before" if o["t"] <= min([x["t"] for x in sc["ops"] if x["op"] == "register"] or [0]) else "after") for o in sc["ops"] if o["op"] == "browse"})
    changes = sorted({o["op"] for o in sc["ops"] if o["op"] != "browse"})
    res.cls("scenario", "hosts=%d" % len(sc["hosts"]), "browse=" + "+".join(phases), "+".join(changes), "dup=%g" % sc["dup_p"], "N=%d" % (N // 25 * 25))
    if n_drops == 0:
        ks = list(range(N))
    else:
        # stratified: some of every datagram class
        by_kind: Dict[str, List[int]] = {}
        for i, k in enumerate(kinds):
            by_kind.setdefault(k, []).append(i)
        ks = []
        pools = [rng.sample(v, len(v)) for v in by_kind.values()]
        while len(ks) < min(n_drops, N) and any(pools):
            for p in pools:
                if p and len(ks) < n_drops:
                    ks.append(p.pop())
    host_names = [h["name"] for h in sc["hosts"]]
    for k in ks:
        scope_host = rng.choice(host_names) if rng.random() < 0.4 else None
        try:
            run = execute(sc, seed, k, scope_host)
        except Exception as e:
            mk_viol(k)("c07.converged", "exception", "exception with datagram %d dropped: %r\n%s" % (k, e, tb()), exc_type=type(e).__name__)
            continue
        res.evaluations += 1
        dk = kinds[k] if k < len(kinds) else "?"
        if run["escapes"]:
            mk_viol(k)("c07.converged", "loop_exception", repr(run["escapes"][0])[:800])
        judge(res, sc, run, mk_viol([k, scope_host]), dk, "one receiver" if scope_host else "all receivers")
        res.cls("drop", dk, "one" if scope_host else "all", "hosts=%d" % len(sc["hosts"]))
    res.extra["runs_with_one_datagram_dropped"] = res.extra.get("runs_with_one_datagram_dropped", 0) + len(ks)
    if res.evaluations % 7 <= 1:
        res.sample({"hosts": len(sc["hosts"]), "ops": desc["ops"][:6], "datagrams": N, "drops_tried": len(ks), "kinds": {k: kinds.count(k) for k in set(kinds)}})


# ---------------------------------------------------------------------------------------
# a multi-homed responder: two links, one IPv6 interface on each


def run_two_links(res: Result, seed: int) -> None:
    """A machine with one IPv6 interface on each of two links (one sender socket per interface, one wildcard listen socket that
    has joined the group on both) registers, updates and withdraws services; a browser host sits on each link.  Both browsers
    must converge - each link is served by the datagrams that leave through *its* interface (the simulated kernel routes a
    multicast datagram by the scope id in its destination when one is given, by the socket's interface otherwise).  No loss,
    little jitter: what is judged here is the topology, not the schedule."""
    from zeroconf import IPVersion, ServiceListener
    from zeroconf.asyncio import AsyncServiceBrowser, AsyncServiceInfo
    rng = random.Random(seed)
    res.evaluations += 1
    T = TYPES[0]
    m_v4 = rng.random() < 0.5
    b0_layout = rng.choice(["single", "split"])
    b1_layout = rng.choice(["single", "split"])
    nsvc = rng.choice([1, 2, 3])
    svcs = []
    for i in range(nsvc):
        sp = R.gen_service(rng, type_=T, min_ttl=10)
        sp.name = "two%d.%s" % (i, T)
        sp.server = "mhost.local."
        sp.addrs4, sp.addrs6 = [b"\x0a\x00\x00\x01"], [b"\xfe\x80" + b"\0" * 13 + b"\xa1"]
        svcs.append({"spec": sp, "reg": float(rng.choice([0, 100, 2500])), "fate": rng.choice(["stay", "stay", "unregister", "update"]),
                     "when": float(rng.choice([9000, 12000]))})
    browse_at = [float(rng.choice([0, 50, 400, 3000, 6000])) for _ in range(2)]
    desc = {"family": "two_links", "m_v4": m_v4, "b0": b0_layout, "b1": b1_layout, "browse_at": browse_at,
            "svcs": [{"name": x["spec"].name, "reg": x["reg"], "fate": x["fate"], "when": x["when"]} for x in svcs]}

    def viol(kind: str, detail: str, **sig: Any) -> None:
        res.violation("c07.two_links", kind, detail, sig, {"seed": seed, "two_links": True, "scenario": desc})

    state: Dict[Tuple[int, str], str] = {}
    lookups: List[Dict[str, Any]] = []
    out: Dict[str, Any] = {}
    policy = simnet.Policy(random.Random(seed ^ 0x77), max_delay_ms=15.0, dup_p=rng.choice([0.0, 0.0, 0.1]))
    with simnet.Sim(seed & 0xFFFF, policy=policy) as sim:
        class BL(ServiceListener):
            def __init__(self, bid: int):
                self.bid = bid

            def add_service(self, zc: Any, t: str, n: str) -> None:
                state[(self.bid, n.lower())] = "A"
                rec = {"bid": self.bid, "name": n.lower(), "start": sim.now_ms(), "done": None, "result": None}
                lookups.append(rec)

                async def look() -> None:
                    info = AsyncServiceInfo(t, n)
                    try:
                        rec["result"] = bool(await info.async_request(zc, 3000))
                        rec["port"] = info.port
                    except Exception as e:  # noqa
                        rec["result"] = "exc:%r" % (e,)
                    rec["done"] = sim.now_ms()
                asyncio.ensure_future(look())

            def remove_service(self, zc: Any, t: str, n: str) -> None:
                state[(self.bid, n.lower())] = "R"

            def update_service(self, zc: Any, t: str, n: str) -> None:
                pass

        async def main():
            m = sim.net.add_host("M", "10.0.0.1" if m_v4 else None, "fe80::a1", layout="split", ip6b="fe80::a2")
            b0 = sim.net.add_host("B0", None, "fe80::b0", layout=b0_layout, link=0)
            b1 = sim.net.add_host("B1", None, "fe80::b1", layout=b1_layout, link=1)
            am = await sim.start_host(m)
            a0 = await sim.start_host(b0)
            a1 = await sim.start_host(b1)
            T0 = sim.now_ms()
            out["T0"] = T0
            gone: Dict[str, float] = {}
            ports: Dict[str, Set[int]] = {}
            out["gone"], out["ports"] = gone, ports

            async def life(x: Dict[str, Any]) -> None:
                await sim.sleep_until_ms(T0 + x["reg"])
                info = R.make_info(x["spec"])
                ports.setdefault(x["spec"].name.lower(), set()).add(x["spec"].port)
                await (await am.zeroconf.async_register_service(info))
                if x["fate"] == "stay":
                    return
                await sim.sleep_until_ms(T0 + x["when"])
                if x["fate"] == "unregister":
                    gone[x["spec"].name.lower()] = sim.now_ms()
                    await (await am.zeroconf.async_unregister_service(info))
                else:
                    sp2 = R.gen_service(rng, name=x["spec"].name, type_=T, min_ttl=10)
                    sp2.server, sp2.addrs4, sp2.addrs6 = x["spec"].server, x["spec"].addrs4, x["spec"].addrs6
                    ports[x["spec"].name.lower()].add(sp2.port)
                    await (await am.zeroconf.async_update_service(R.make_info(sp2)))

            async def browse(bid: int, azc: Any, at: float) -> Any:
                await sim.sleep_until_ms(T0 + at)
                return AsyncServiceBrowser(azc.zeroconf, T, listener=BL(bid))

            results = await asyncio.gather(*([life(x) for x in svcs] + [browse(0, a0, browse_at[0]), browse(1, a1, browse_at[1])]))
            await sim.sleep_until_ms(T0 + 12000.0 + 1000.0 + SETTLE_MS)
            out["T_eval"] = sim.now_ms()
            out["state"] = dict(state)
            for b in results[-2:]:
                await b.async_cancel()
            for a in (am, a0, a1):
                await a.async_close()

        try:
            sim.run(main())
        except Exception as e:
            viol("exception", "exception during scenario: %r\n%s" % (e, tb()), exc_type=type(e).__name__)
            return
        escapes = [e for e in sim.net.escapes if "was destroyed but it is pending" not in str(e.get("message"))]
        for esc in escapes[:1]:
            viol("loop_exception", repr(esc)[:800])
        trace = list(sim.net.trace)
    # what each link was sent: multicast datagrams of M by the link they left through
    by_link: Dict[Any, int] = {}
    for e in trace:
        if e["host"] == "M" and e["mcast"]:
            by_link[e["egress"]] = by_link.get(e["egress"], 0) + 1
    acc = res.extra.setdefault("two_links_multicast_of_M_by_egress_link", {})
    for k, v in by_link.items():
        acc[str(k)] = acc.get(str(k), 0) + v
    for bid in (0, 1):
        for x in svcs:
            name = x["spec"].name.lower()
            res.mon("c07.two_links")
            st = out["state"].get((bid, name))
            if name in out["gone"]:
                if st == "A":
                    viol("withdrawn_service_still_reported", "browser on link %d still reports %s %.0f ms after it was withdrawn (multicast datagrams of M by egress link: %r)" % (
                        bid, name, out["T_eval"] - out["gone"][name], by_link), link=bid)
            elif st != "A":
                viol("registered_service_not_reported", "browser on link %d reports %s as %r %.0f ms after the last change although it is registered (multicast datagrams of M by egress link: %r)" % (
                    bid, name, st, SETTLE_MS, by_link), link=bid)
    for rec in lookups:
        name = rec["name"]
        if name in out["gone"] and out["gone"][name] < rec["start"] + 3100.0:
            continue
        res.mon("c07.two_links.lookup")
        if rec["result"] is not True:
            viol("lookup_failed", "lookup of %s by the browser on link %d, started %.0f ms after T0 while the service was registered, returned %r" % (
                name, rec["bid"], rec["start"] - out["T0"], rec["result"]), link=rec["bid"])
        elif rec.get("port") not in out["ports"].get(name, set()):
            viol("lookup_wrong_port", "lookup of %s on link %d reports port %r, registered %r" % (name, rec["bid"], rec.get("port"), sorted(out["ports"].get(name, []))), link=rec["bid"])
    res.cls("two_links", "m_v4=%s" % m_v4, b0_layout, b1_layout, "+".join(sorted({x["fate"] for x in svcs})))



def run_shard(spec):
    res = Result()
    rng = rng_for("c07", spec["seed"], spec["shard"])
    for _ in range(spec["per"]):
        run_scenario(res, rng.randrange(1 << 30), spec["drops"])
    for _ in range(spec.get("two_links", 0)):
        run_two_links(res, rng.randrange(1 << 30))
    return res


def replay(blob):
    res = Result()
    if "witness" in blob:
        run_witness(res, blob["witness"])
        return res
    if blob.get("two_links"):
        run_two_links(res, blob["seed"])
        return res
    rng = random.Random(blob["seed"])
    sc = gen_scenario(rng)

    def viol(monitor: str, kind: str, detail: str, **sig: Any) -> None:
        res.violation(monitor, kind, detail, sig, blob)
    drop = blob.get("drop")
    if drop is None:
        run = execute(sc, blob["seed"], None, None)
        judge(res, sc, run, viol, "none", "-")
    else:
        run = execute(sc, blob["seed"], drop[0], drop[1])
        judge(res, sc, run, viol, "replay", "one receiver" if drop[1] else "all receivers")
    res.evaluations = 1
    return res


def witness_scenario() -> Dict[str, Any]:
    """Stored witness of known finding F15 (no loss, reordering only): the owner (split sockets) answers its own third probe by
    unicast; that reply (80 ms) is overtaken by the first goodbye (10 ms) of an unregister issued 50 ms later; goodbyes 2 and 3
    are byte-identical to goodbye 1 and are dropped by the duplicate-datagram guard of the listen socket, so the PTR re-added
    by the late unicast reply stays cached and a browser started later on that host reports the withdrawn service."""
    s = Svc("_http._tcp.local.", "witness._http._tcp.local.", "witness-host.local.", 80, b"", [b"\x0a\x00\x00\x02"], [], 120, 4500)
    return {"hosts": [{"name": "H0", "ip4": "10.0.0.1", "ip6": None, "layout": "single"}, {"name": "H1", "ip4": "10.0.0.2", "ip6": None, "layout": "split"}],
            "ops": [{"t": 100.0, "op": "register", "host": 1, "svc": 0, "spec": s}, {"t": 500.0, "op": "unregister", "host": 1, "svc": 0},
                    {"t": 3000.0, "op": "browse", "host": 1, "type": "_http._tcp.local.", "bid": 0}],
            "dup_p": 0.0, "max_delay": 100.0, "witness_policy": {"unicast_ms": 80.0, "multicast_ms": 10.0}}


def witness_scenario_f38() -> Dict[str, Any]:
    """Stored witness of known finding F38 (no loss, reordering only): as in F15 the owner answers its own third probe by
    unicast (80 ms); an update issued 50 ms after the registration completed announces the new TXT (10 ms), so the reply with
    the OLD TXT is processed after the first announcement of the new one; announcements 2 and 3 are byte-identical to the first
    and are dropped by the duplicate guard.  The old TXT is then the copy received last and a lookup made on that host seconds
    later (browser started at 4 s) reports it, while a lookup on the other host reports the new one."""
    s1 = Svc("_http._tcp.local.", "witness._http._tcp.local.", "witness-host.local.", 80, b"\x05a=old", [b"\x0a\x00\x00\x02"], [], 120, 4500)
    s2 = Svc("_http._tcp.local.", "witness._http._tcp.local.", "witness-host.local.", 80, b"\x05a=new", [b"\x0a\x00\x00\x02"], [], 120, 4500)
    return {"hosts": [{"name": "H0", "ip4": "10.0.0.1", "ip6": None, "layout": "single"}, {"name": "H1", "ip4": "10.0.0.2", "ip6": None, "layout": "split"}],
            "ops": [{"t": 100.0, "op": "register", "host": 1, "svc": 0, "spec": s1}, {"t": 500.0, "op": "update", "host": 1, "svc": 0, "spec": s2},
                    {"t": 4000.0, "op": "browse", "host": 1, "type": "_http._tcp.local.", "bid": 0},
                    {"t": 5000.0, "op": "browse", "host": 0, "type": "_http._tcp.local.", "bid": 1}],
            "dup_p": 0.0, "max_delay": 100.0, "witness_policy": {"unicast_ms": 80.0, "multicast_ms": 10.0}}


WITNESSES = {"F15": (witness_scenario, 15), "F38": (witness_scenario_f38, 38)}


def run_witness(res: Result, wid: str) -> None:
    make, seed = WITNESSES[wid]
    sc = make()

    def viol(monitor: str, kind: str, detail: str, **sig: Any) -> None:
        res.violation(monitor, kind, detail, sig, {"witness": wid})
    run = execute(sc, seed, None, None)
    res.evaluations += 1
    judge(res, sc, run, viol, "none", "-")


def witnesses(spec):
    res = Result()
    for wid in sorted(WITNESSES):
        run_witness(res, wid)
    return res
