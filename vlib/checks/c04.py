"""C04 - browser callbacks alternate add/remove and always match the cache."""
from __future__ import annotations

import random
from typing import Any, Dict, List, Optional, Set, Tuple

from .. import respond as R
from .. import simnet, wire
from ..common import Result, rng_for, tb

PROPERTY_ID = "C04"
LEVEL = "exploration"
RULE = ("One real Zeroconf in the simulator with 1..3 AsyncServiceBrowsers over 1..2 unrelated types (spy ServiceListeners), "
        "started before/while/after records exist and cancelled at random; response datagrams injected from a fake peer: new, "
        "refreshed, goodbye, flush-bit, duplicated-in-datagram and later re-cased PTRs (in one history in eight some of them owned by a subtype of the browsed type), plus SRV/TXT/A/AAAA for known and unknown "
        "instances, TTL in {0,1,2,1125,4500}; clock advances from 0 ms to 2 h chosen around the PTR floor, 4500 s expiry and the 10 s "
        "purge (the engine's real purge timer runs). Monitors: per (browser,type,instance) the Added/Removed string matches "
        "(A R)* A?; at every quiescent point (after each datagram/advance) the live set of each browser equals the PTR aliases held "
        "in the cache for that type (case-insensitive); inside add_service every non-zero-TTL record of the triggering datagram is "
        "found in the cache; no callback after async_cancel returned. Distinct = (event kind, cache relation, expiry path, "
        "#browsers) classes.")
ASSUMPTIONS = ["PTR owner names are spelled exactly as the browsed type (one history in eight also has pointers owned by a subtype of the browsed type: known finding F44); browsed types are not sub/super-types of one another; no case-variants within one datagram;"
               " browsers are also started while an expired-but-unpurged PTR of their type is cached (counted as an observation)"]

BASE_TYPES = ["_http._tcp.local.", "_ipp._tcp.local."]
# a subtype whose own label has no underscore (RFC 6763 section 7.1: subtype identifiers are arbitrary strings); its pointers
# lead to instances of the base type
PLAIN_SUBTYPE = "printer._sub._http._tcp.local."
TYPES = list(BASE_TYPES)
INST = {t: ["one." + t, "two." + t, "Three." + t] for t in TYPES}


def set_flavour(plain_subtype: bool) -> None:
    """One run in seven browses the plain-label subtype in place of its base type (never both: the property excludes
    browsed types that are sub/super-types of one another)."""
    TYPES[:] = [PLAIN_SUBTYPE if plain_subtype else BASE_TYPES[0], BASE_TYPES[1]]
    INST.clear()
    for t in TYPES:
        base = BASE_TYPES[0] if t == PLAIN_SUBTYPE else t
        INST[t] = ["one." + base, "two." + base, "Three." + base]
# an ordinary subtype of the first base type: in one history in eight some pointers to the instances of that type are owned by
# this name (a responder that advertises its instances under a subtype as well, RFC 6763 section 7.1)
SUB_OWNER = "_printer._sub._http._tcp.local."
SUB_POINTERS = [False]
HOSTS = ["h1.local.", "h2.local."]
TTLS = [0, 1, 2, 1125, 4500]
ADV = [0, 1, 500, 999, 1000, 1001, 5000, 9999, 10000, 10001, 60000, 843750, 1124000, 1125000, 1126000, 1135000, 3375000, 4499000, 4500000, 4510000, 7200000]


def floors(tier):
    q = tier == "quick"
    return {"c04.alternate": 30000 if q else 3000000, "c04.live_equals_cache": 60000 if q else 6000000, "c04.visible_in_add": 5000 if q else 400000, "c04.threaded": 8 if q else 24, "c04.thread_safety": 2 if q else 8, "c04.thread_safety.loads": 2000 if q else 8000}


def plan(tier, seed):
    if tier == "quick":
        n, per = 16, 400
    else:
        n, per = 64, 12000
    specs = [{"seed": seed, "shard": i, "per": per, "tier": tier} for i in range(n)]
    for k in range(4 if tier == "quick" else 12):
        specs.append({"seed": seed, "shard": 2000 + k, "per": 0, "tier": tier, "threaded": 4})
    return specs


def make_listener_class():
    from zeroconf import ServiceListener

    class Spy(ServiceListener):
        def __init__(self, run: "Run", bid: int):
            self.run = run
            self.bid = bid

        def add_service(self, zc: Any, type_: str, name: str) -> None:
            self.run.callback(self.bid, "A", type_, name)

        def remove_service(self, zc: Any, type_: str, name: str) -> None:
            self.run.callback(self.bid, "R", type_, name)

        def update_service(self, zc: Any, type_: str, name: str) -> None:
            self.run.callback(self.bid, "U", type_, name)

    return Spy


class Run:
    def __init__(self, res: Result, seed: int):
        self.res = res
        self.seed = seed
        self.rng = random.Random(seed)
        self.sim: Optional[simnet.Sim] = None
        self.zc: Any = None
        self.browsers: Dict[int, Dict[str, Any]] = {}
        self.log: List[Tuple] = []
        self.state: Dict[Tuple[int, str, str], str] = {}    # (browser, type, lname) -> last of A/R
        self.current_dgram: Optional[List[Tuple[Tuple, int]]] = None
        self.steps: List[Any] = []
        self.next_bid = 0
        self.discarded_starts = 0
        self.length = 0
        self.sub_seen: Set[str] = set()      # instances that were advertised under the subtype at some point of this history

    def viol(self, monitor: str, kind: str, detail: str, **sig: Any) -> None:
        self.res.violation(monitor, kind, detail, sig, {"seed": self.seed, "length": self.length, "steps": self.steps[-25:]})

    def callback(self, bid: int, kind: str, type_: str, name: str) -> None:
        t = self.sim.now_ms()
        self.log.append((t, bid, kind, type_, name))
        b = self.browsers.get(bid)
        if b is None or b["cancelled"]:
            self.viol("c04.alternate", "callback_after_cancel", "browser %d got %s(%s) after async_cancel returned" % (bid, kind, name))
            return
        if kind == "U":
            return
        key = (bid, type_, name.lower())
        prev = self.state.get(key)
        self.res.mon("c04.alternate")
        mech = {"mechanism": "pointer_owned_by_subtype"} if name.lower() in self.sub_seen else {}
        if kind == "A" and prev == "A":
            self.viol("c04.alternate", "double_add", "browser %d: Added(%s) twice without Removed in between" % (bid, name), cb="AA", **mech)
        elif kind == "R" and prev != "A":
            self.viol("c04.alternate", "remove_without_add", "browser %d: Removed(%s) %s" % (bid, name, "twice" if prev == "R" else "before any Added"),
                      cb=("RR" if prev == "R" else "R-first"), **mech)
        self.state[key] = kind
        if kind == "A":
            # the lookup an application makes from add_service: a ServiceInfo for the reported (type, name) pair, filled
            # from the cache.  It must be constructible for whatever spelling the browser reports.
            self.res.mon("c04.lookup_in_add")
            try:
                from zeroconf.asyncio import AsyncServiceInfo
                AsyncServiceInfo(type_, name).load_from_cache(self.zc)
            except Exception as e:  # noqa
                self.viol("c04.visible_in_add", "lookup_in_add_raised", "inside add_service(%r, %r): ServiceInfo(type, name).load_from_cache raised %r" % (type_, name, e),
                          exc_type=type(e).__name__)
        if kind == "A" and self.current_dgram is not None:
            self.res.mon("c04.visible_in_add")
            gone = {i for i, ttl in self.current_dgram if ttl == 0}
            for ident, ttl in self.current_dgram:
                if ttl == 0 or ident in gone:
                    continue
                probe = probe_record(ident)
                if self.zc.cache.get(probe) is None or self.zc.cache.async_get_unique(probe) is None:
                    self.viol("c04.visible_in_add", "record_not_in_cache_during_add", "inside add_service(%s) record %r of the same datagram is not in the cache" % (name, ident))

    def live(self, bid: int, type_: str) -> Set[str]:
        return {k[2] for k, v in self.state.items() if k[0] == bid and k[1] == type_ and v == "A"}

    def cached_aliases(self, type_: str) -> Set[str]:
        import zeroconf._dns as d
        return {r.alias.lower() for r in self.zc.cache.entries_with_name(type_) if isinstance(r, d.DNSPointer) and r.type == 12}

    def check_quiescent(self, where: str) -> None:
        for bid, b in self.browsers.items():
            if b["cancelled"]:
                continue
            for t in b["types"]:
                self.res.mon("c04.live_equals_cache")
                live, cached = self.live(bid, t), self.cached_aliases(t)
                if live != cached:
                    mech = {"mechanism": "pointer_owned_by_subtype"} if (live ^ cached) <= self.sub_seen else {}
                    self.viol("c04.live_equals_cache", "live_differs_from_cache",
                              "%s: browser %d type %s reports live %r but cache holds %r" % (where, bid, t, sorted(live), sorted(cached)),
                              diff=("stale_live" if live - cached else "missed_add"), **mech)

    def has_expired_unpurged(self, types: List[str]) -> bool:
        import zeroconf._dns as d
        now = self.sim.now_ms()
        for t in types:
            for r in self.zc.cache.entries_with_name(t):
                if isinstance(r, d.DNSPointer) and r.is_expired(now):
                    return True
        return False


def probe_record(ident: Tuple) -> Any:
    import zeroconf._dns as d
    kind, name, rd = ident
    if kind == "PTR":
        return d.DNSPointer(name, 12, 1, 0, rd[0], 1.0)
    if kind == "SRV":
        return d.DNSService(name, 33, 1, 0, rd[0], rd[1], rd[2], rd[3], 1.0)
    if kind == "TXT":
        return d.DNSText(name, 16, 1, 0, rd[0], 1.0)
    return d.DNSAddress(name, 1 if kind == "A" else 28, 1, 0, rd[0], created=1.0)


def gen_dgram(rng: random.Random, known_instances: List[Tuple[str, str]]) -> List[Tuple[Tuple, int, bool, str]]:
    """-> [(identity-with-spelling, ttl, flush, tag)]; identities use the spelled names (owner spelled exactly as type)."""
    n = rng.choice([1, 1, 2, 3, 5])
    out: List[Tuple[Tuple, int, bool, str]] = []
    used_lower: Dict[str, str] = {}
    for _ in range(n):
        r = rng.random()
        t = rng.choice(TYPES)
        if r < 0.6:
            inst = rng.choice(INST[t])
            if rng.random() < 0.25:
                inst = rng.choice([inst.upper(), inst.swapcase(), inst.lower()])
            # no two names differing only in case inside one datagram
            if used_lower.get(inst.lower(), inst) != inst:
                inst = used_lower[inst.lower()]
            used_lower[inst.lower()] = inst
            ttl = rng.choice(TTLS)
            flush = rng.random() < 0.08
            if out and rng.random() < 0.15:
                prev = rng.choice(out)
                if prev[0][0] == "PTR":
                    out.append((prev[0], prev[1] if rng.random() < 0.7 else rng.choice(TTLS), prev[2], "dup"))
                    continue
            if SUB_POINTERS[0] and t == BASE_TYPES[0] and rng.random() < 0.35:
                out.append((("PTR", SUB_OWNER, (inst,)), ttl, flush, "subptr"))
                continue
            out.append((("PTR", t, (inst,)), ttl, flush, "ptr"))
        elif r < 0.75:
            inst = rng.choice(INST[t])
            out.append((("SRV", inst, (0, 0, rng.choice([80, 81]), rng.choice(HOSTS))), rng.choice([0, 2, 120]), rng.random() < 0.7, "srv"))
        elif r < 0.85:
            inst = rng.choice(INST[t])
            out.append((("TXT", inst, (rng.choice([b"\x03a=1", b"\x03a=2"]),)), rng.choice([0, 2, 4500]), rng.random() < 0.7, "txt"))
        else:
            out.append(((rng.choice(["A", "AAAA"]), rng.choice(HOSTS), (b"\x0a\x00\x00\x01",)), rng.choice([0, 2, 120]), rng.random() < 0.7, "addr"))
            if out[-1][0][0] == "AAAA":
                out[-1] = (("AAAA", out[-1][0][1], (b"\xfe\x80" + b"\0" * 13 + b"\x01",)), out[-1][1], out[-1][2], "addr")
    return out


def run_history(res: Result, seed: int, length: int) -> None:
    from zeroconf.asyncio import AsyncServiceBrowser
    run = Run(res, seed)
    run.length = length
    rng = run.rng
    set_flavour(random.Random(seed ^ 0x5B).random() < 0.15)
    SUB_POINTERS[0] = TYPES[0] == BASE_TYPES[0] and random.Random(seed ^ 0x5C).random() < 0.125
    run.steps.append(["flavour", list(TYPES), "subtype pointers" if SUB_POINTERS[0] else "-"])
    Spy = make_listener_class()
    res.evaluations += 1
    with simnet.Sim(seed & 0xFFFF) as sim:
        run.sim = sim

        async def main():
            host = sim.net.add_host("H", "10.0.0.1")
            azc = await sim.start_host(host)
            zc = azc.zeroconf
            run.zc = zc
            dg_id = 0

            def start_browser() -> None:
                types = rng.choice([[TYPES[0]], [TYPES[1]], list(TYPES)])
                if run.has_expired_unpurged(types):
                    # (such starts were left out until the F20 repair: adding a listener now purges what has run out first)
                    res.obs("browser_started_while_expired_unpurged_ptr_cached")
                bid = run.next_bid
                run.next_bid += 1
                run.browsers[bid] = {"types": types, "cancelled": False, "obj": None}
                run.current_dgram = None
                b = AsyncServiceBrowser(zc, types if len(types) > 1 else types[0], listener=Spy(run, bid), delay=rng.choice([1000, 10000]))
                run.browsers[bid]["obj"] = b
                run.steps.append(["browser_start", bid, types])
                res.cls("browser_start", "cache_empty" if not any(run.cached_aliases(t) for t in types) else "cache_has_ptrs", len(types))

            if rng.random() < 0.7:
                start_browser()
            for i in range(length):
                r = rng.random()
                if r < 0.55:
                    recs = gen_dgram(rng, [])
                    dg_id += 1
                    data = R.build_response([(ident, ttl, flush) for ident, ttl, flush, _ in recs], id_=dg_id & 0xFFFF)
                    run.current_dgram = [((k, o.lower(), tuple(x.lower() if isinstance(x, str) else x for x in rd)), ttl) for (k, o, rd), ttl, _f, _t in recs]
                    run.steps.append(["dgram", [[list(map(str, ident)), ttl, flush] for ident, ttl, flush, _ in recs]])
                    pre = {t: run.cached_aliases(t) for t in TYPES}
                    pre[SUB_OWNER] = run.cached_aliases(SUB_OWNER)
                    run.sub_seen |= {ident[2][0].lower() for ident, _ttl, _f, tag in recs if tag == "subptr"}
                    sim.net.inject_now(host, data, ("10.0.0.77", 5353))
                    run.current_dgram = None
                    for ident, ttl, flush, tag in recs:
                        if ident[0] == "PTR":
                            rel = "cached" if ident[2][0].lower() in pre[ident[1]] else "new"
                            res.cls("ptr", tag, rel, "ttl%d" % ttl, "flush" if flush else "-", "browsers=%d" % len([b for b in run.browsers.values() if not b["cancelled"]]))
                        else:
                            res.cls("other", tag, "ttl%d" % ttl)
                    run.check_quiescent("after datagram %d" % dg_id)
                elif r < 0.85:
                    ms = rng.choice(ADV) if rng.random() < 0.8 else rng.randrange(0, 5_000_000)
                    run.steps.append(["adv", ms])
                    before = {t: len(run.cached_aliases(t)) for t in TYPES}
                    await sim.sleep_ms(ms)
                    after = {t: len(run.cached_aliases(t)) for t in TYPES}
                    res.cls("adv", "purged" if any(after[t] < before[t] for t in TYPES) else "nopurge", "long" if ms > 1_000_000 else ("mid" if ms >= 10000 else "short"))
                    run.check_quiescent("after advance %d ms" % ms)
                elif r < 0.93:
                    if len([b for b in run.browsers.values() if not b["cancelled"]]) < 3:
                        start_browser()
                        await sim.sleep_ms(0)
                        run.check_quiescent("after browser start")
                else:
                    alive = [bid for bid, b in run.browsers.items() if not b["cancelled"]]
                    if alive:
                        bid = rng.choice(alive)
                        await run.browsers[bid]["obj"].async_cancel()
                        run.browsers[bid]["cancelled"] = True
                        run.steps.append(["browser_cancel", bid])
                        res.cls("browser_cancel")
            # let a final purge happen and check once more
            await sim.sleep_ms(10001)
            run.check_quiescent("final")
            for b in run.browsers.values():
                if not b["cancelled"]:
                    await b["obj"].async_cancel()
                    b["cancelled"] = True
            await azc.async_close()

        try:
            sim.run(main())
        except Exception as e:
            run.viol("c04.alternate", "exception", "exception during history: %r\n%s" % (e, tb()), exc_type=type(e).__name__)
        for esc in sim.net.escapes[:1]:
            run.viol("c04.alternate", "loop_exception", repr(esc)[:800])
    if res.evaluations % 37 == 1:
        res.sample({"steps": run.steps[:8], "callbacks": [list(x) for x in run.log[:10]]})


def run_threaded(res: Result, seed: int) -> None:
    """Real-time variant for the thread-based ServiceBrowser (queue + dedicated thread) on a Zeroconf with its own loop thread."""
    import threading
    import time
    import zeroconf._dns as d
    from zeroconf import ServiceBrowser, ServiceListener, Zeroconf
    rng = random.Random(seed)
    res.evaluations += 1
    lock = threading.Lock()
    state: Dict[str, str] = {}
    problems: List[str] = []
    injected: List[Tuple[str, int]] = []          # appended (under the lock) before the datagram is handed to the instance
    withdrawn_meanwhile: List[str] = []
    absent_in_add: List[str] = []
    processed: List[Tuple[str, int]] = []         # (alias, ttl) of every datagram the loop thread has begun to process
    set_flavour(False)
    T = TYPES[0]

    # a listener that takes its time: the loop thread then processes several datagrams about one instance (announce,
    # goodbye, announce again) while the browser thread still works on an earlier callback
    slow = rng.random() < 0.6
    lrng = random.Random(seed ^ 0x51)
    inflight = [0]            # callbacks the browser thread has entered and not yet left (a slow one is not "queue empty")

    class L(ServiceListener):
        def _cb(self, kind: str, zc: Any, name: str) -> None:
            with lock:
                inflight[0] += 1
            try:
                if slow and lrng.random() < 0.45:
                    if kind == "A" and lrng.random() < 0.5:
                        # what listeners do: a blocking lookup from the browser thread (nobody answers: it runs to its timeout)
                        try:
                            zc.get_service_info(T, name, lrng.choice([30, 60, 100]))
                        except Exception as e:  # noqa
                            with lock:
                                problems.append("get_service_info from add_service raised %r" % (e,))
                    else:
                        time.sleep(lrng.choice([0.03, 0.06, 0.1]))
                self._record(kind, zc, name)
            finally:
                with lock:
                    inflight[0] -= 1

        def _record(self, kind: str, zc: Any, name: str) -> None:
            with lock:
                prev = state.get(name.lower())
                if kind == "A" and prev == "A":
                    problems.append("double Added(%s)" % name)
                if kind == "R" and prev != "A":
                    problems.append("Removed(%s) without Added" % name)
                if kind == "A":
                    # lookups from inside add_service (browser thread) must see the record
                    if not any(isinstance(r, d.DNSPointer) and r.alias.lower() == name.lower() for r in zc.cache.entries_with_name(T)):
                        absent_in_add.append(name)
                state[name.lower()] = kind
            if absent_in_add and absent_in_add[-1] == name and kind == "A":
                # The callback runs on the browser thread, later than the datagram was processed on the loop thread: a goodbye
                # the loop thread has begun to process since may legitimately have removed the record again.  Decided from the
                # log of datagrams the loop thread has begun to process: no goodbye about this name among them => the record of
                # the triggering datagram is owed; a goodbye among them => not judged (counted).
                absent_in_add.pop()
                with lock:
                    mine = [ttl for (n, ttl) in processed if n.lower() == name.lower()]
                    if any(ttl == 0 for ttl in mine):
                        withdrawn_meanwhile.append(name)
                    else:
                        problems.append("add_service(%s): PTR not in the cache and no goodbye for it has reached the instance (datagrams begun: %r)" % (name, mine))

        def add_service(self, zc: Any, t: str, n: str) -> None:
            self._cb("A", zc, n)

        def remove_service(self, zc: Any, t: str, n: str) -> None:
            self._cb("R", zc, n)

        def update_service(self, zc: Any, t: str, n: str) -> None:
            pass

    try:
        with simnet.RealTimeRig() as rig:
            zc = Zeroconf()

            def _done(rec: Dict[str, Any]) -> None:
                m, _ = wire.try_parse(rec["data"], strict=False)
                if m is not None and m.is_response:
                    with lock:
                        for r in m.answers:
                            if r.type == 12:
                                processed.append((R.ident_of_wire(r)[2][0], r.ttl))
            rig.net.on_deliver = _done
            browser = ServiceBrowser(zc, T, listener=L())
            time.sleep(0.15)
            steps = []
            for i in range(rng.choice([6, 12, 20])):
                # (behind a slow listener: few instances flapping, so that several state changes of one instance queue up)
                inst = rng.choice(INST[T][:2] if slow else INST[T])
                if rng.random() < 0.25:
                    inst = inst.upper()
                ttl = rng.choice([0, 4500] if slow else [0, 0, 1, 4500])
                steps.append((inst, ttl))
                with lock:
                    injected.append((inst, ttl))
                rig.inject(zc, R.build_response([(("PTR", T, (inst,)), ttl, False)], id_=i + 1))
                time.sleep(rng.choice([0.0, 0.002, 0.02]))
            # quiescence, not a wall-clock guess: a round trip through the loop (everything injected has been processed), then
            # the browser thread's queue empty on two looks 50 ms apart; a generous watchdog makes the run inconclusive
            quiet = False
            deadline = time.monotonic() + 20.0
            while time.monotonic() < deadline:
                __import__("asyncio").run_coroutine_threadsafe(_cached(zc, T), zc.loop).result(10)
                with lock:
                    idle = inflight[0] == 0
                if browser.queue.empty() and idle:
                    time.sleep(0.05)
                    with lock:
                        if browser.queue.empty() and inflight[0] == 0:
                            quiet = True
                            break
                time.sleep(0.02)
            if not quiet:
                res.inconclusive.append("threaded browser run: callbacks still pending 20 s after the last datagram (machine overloaded?)")
                browser.cancel()
                zc.close()
                return
            res.mon("c04.threaded")
            if withdrawn_meanwhile:
                res.obs("threaded_add_callback_ran_after_a_later_goodbye_removed_the_record", len(withdrawn_meanwhile))
            with lock:
                live = {k for k, v in state.items() if v == "A"}
                probs = list(problems)
            fut = __import__("asyncio").run_coroutine_threadsafe(_cached(zc, T), zc.loop)
            cached = fut.result(5)
            if probs:
                res.violation("c04.alternate", "threaded_" + ("double_add" if "double" in probs[0] else "callback_order"), "thread browser: %s (steps %r)" % (probs[0], steps), {}, {"seed": seed, "threaded": True})
            if live != cached:
                res.violation("c04.live_equals_cache", "threaded_live_differs_from_cache", "thread browser live %r cache %r after %r" % (sorted(live), sorted(cached), steps), {}, {"seed": seed, "threaded": True})
            if rig.net.escapes:
                res.violation("c04.alternate", "threaded_loop_exception", repr(rig.net.escapes[0])[:500], {}, {"seed": seed, "threaded": True})
            browser.cancel()
            zc.close()
            res.cls("threaded", "steps=%d" % len(steps), "slow-listener" if slow else "fast-listener")
    except Exception as e:
        res.inconclusive.append("threaded browser run crashed in harness: %r" % (e,))


async def _cached(zc: Any, T: str) -> Set[str]:
    import zeroconf._dns as d
    return {r.alias.lower() for r in zc.cache.entries_with_name(T) if isinstance(r, d.DNSPointer)}


def run_thread_safety(res: Result, seed: int) -> None:
    """What a listener of the thread-based browser does from add_service - ServiceInfo(type, name).load_from_cache(zc), the
    accessors documented as thread-safe - executed on a non-loop thread in a tight loop while the loop thread keeps changing
    the records of that very instance and host (new address, goodbye, new TXT).  With a short interpreter switch interval the
    two threads interleave inside the cache scans; nothing may raise and every successful load must carry the SRV data."""
    import sys
    import threading
    import time
    from zeroconf import ServiceInfo
    from ..threadrun import BlockingInstance
    rng = random.Random(seed)
    res.evaluations += 1
    T = BASE_TYPES[0]
    name = "safe." + T
    hostn = "safe-host.local."
    old_iv = sys.getswitchinterval()
    try:
        with BlockingInstance() as bi:
            zc = bi.zc
            bi.inject(R.build_response([(("PTR", T, (name,)), 4500, False), (("SRV", name, (0, 0, 8080, hostn)), 120, True), (("TXT", name, (b"\x03a=1",)), 4500, True),
                                        (("A", hostn, (b"\x0a\x07\x00\x01",)), 120, True)], id_=1))
            bi.settle(5)
            errors: List[str] = []
            loads = [0, 0]
            stop = threading.Event()

            def reader() -> None:
                while not stop.is_set():
                    try:
                        info = ServiceInfo(T, name)
                        ok = info.load_from_cache(zc)
                        loads[0] += 1
                        if ok:
                            loads[1] += 1
                            if info.port != 8080 or (info.server or "").lower() != hostn:
                                errors.append("load_from_cache returned port %r server %r" % (info.port, info.server))
                    except Exception as e:  # noqa
                        errors.append("load_from_cache on a non-loop thread raised %r" % (e,))
                        return
            sys.setswitchinterval(1e-5)
            th = threading.Thread(target=reader, daemon=True)
            th.start()
            n_dgrams = 0
            t_end = time.monotonic() + 1.2
            while time.monotonic() < t_end and not errors:
                k = rng.randrange(2, 40)
                addr = bytes([10, 7, 0, k])
                what = rng.random()
                if what < 0.45:
                    recs = [(("A", hostn, (addr,)), 120, False)]
                elif what < 0.9:
                    recs = [(("A", hostn, (addr,)), 0, False)]
                else:
                    recs = [(("TXT", name, (b"\x03a=%d" % (k % 10),)), 4500, True)]
                bi.inject(R.build_response(recs, id_=2 + n_dgrams))
                n_dgrams += 1
                if n_dgrams % 8 == 0:
                    time.sleep(0.001)
            stop.set()
            th.join(10)
            sys.setswitchinterval(old_iv)
            res.mon("c04.thread_safety")
            res.mon("c04.thread_safety.loads", loads[0])
            if errors:
                res.violation("c04.visible_in_add", "lookup_from_browser_thread_failed", "%s (after %d loads, %d datagrams)" % (errors[0], loads[0], n_dgrams), {},
                              {"seed": seed, "thread_safety": True})
            bad = [e for e in bi.net.escapes if "was destroyed but it is pending" not in str(e.get("message"))]
            if bad:
                res.violation("c04.alternate", "threaded_loop_exception", repr(bad[0])[:500], {}, {"seed": seed, "thread_safety": True})
            res.cls("thread_safety", "loads>=%d" % (1000 * (loads[0] // 1000)))
    except Exception as e:
        res.inconclusive.append("thread-safety run crashed in harness: %r" % (e,))
    finally:
        sys.setswitchinterval(old_iv)


def run_shard(spec):
    res = Result()
    rng = rng_for("c04", spec["seed"], spec["shard"])
    for _ in range(spec["per"]):
        run_history(res, rng.randrange(1 << 30), rng.choice([6, 12, 25, 50]))
    for _ in range(spec.get("threaded", 0)):
        run_threaded(res, rng.randrange(1 << 30))
    if spec.get("threaded", 0):
        run_thread_safety(res, rng.randrange(1 << 30))
    return res


def replay(blob):
    res = Result()
    if blob.get("thread_safety"):
        run_thread_safety(res, blob["seed"])
        return res
    if blob.get("threaded"):
        run_threaded(res, blob["seed"])
        return res
    run_history(res, blob["seed"], blob["length"])
    return res
