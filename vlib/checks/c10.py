"""C10 - browser keeps learned services alive: refresh queries, rate limit, liveness."""
from __future__ import annotations

import random
from typing import Any, Dict, List, Optional, Set, Tuple

from .. import respond as R
from .. import simnet, wire
from ..common import Result, rng_for, tb

PROPERTY_ID = "C10"
LEVEL = "exploration"
RULE = ("A real AsyncServiceBrowser (1..2 types, delay 1/10/60 s, question type forced or not) on a real Zeroconf in virtual time "
        "learns 1..8 PTR records (TTL 1..9000 s, i.e. at and above the 1125 s floor) at random instants and orders - in particular "
        "a shorter-lived record after a longer-lived one - and each is then left to expire, refreshed (same or re-cased spelling, "
        "before or after 75 %), or withdrawn (same or re-cased spelling); the run lasts until every record is gone. All query "
        "datagrams of the host are decoded from the simulated wire. Monitors: start-up schedule (20..120 ms, then +1 s, +4 s, +9 s; "
        "first QU unless forced); minimum spacing between later query batches; every later query for a type is justified by a "
        "cached PTR of that type at >= 75 % of its current TTL (minus the delay); for every record that expires unrefreshed a "
        "query at 75 % (+ at most delay) and at each further 10 % step - the last step, whose lateness allowance runs past the expiry "
        "when the delay exceeds 5 % of the TTL, is owed before the expiry unless a scheduler pass (read-only hook on "
        "QueryScheduler._process_ready_types, also passes that send nothing) started a spacing interval that covers the expiry; "
        "hence no expiry without refresh attempt. 3 % of the histories are long 'churn' histories: an instance with a TTL of up to a day, "
        "one re-announced every 30..120 s for 40..90 rounds (dozens of superseded schedule entries) and late joiners with short TTLs; "
        "15 % start the browser late, with a pointer already cached whose 75 % instant falls into the start-up queries. Distinct = (learn "
        "order, fate, delay, #types, forced type) classes.")
ASSUMPTIONS = ["lateness bound for the 75 % query: the configured delay (+1 ms float slack), a query between 1x and 2x delay late is reported (known finding F22 when explained by churn rule + spacing); earliness bound: the delay (churn-avoidance rule)",
               "records whose 75 % instant falls before the end of the start-up phase (+delay) are not judged for liveness"]

TYPES = ["_http._tcp.local.", "_ipp._tcp.local."]
TTL_CHOICES = [1, 120, 1125, 1200, 2000, 4500, 9000]


def floors(tier):
    q = tier == "quick"
    return {"c10.startup": 3000 if q else 300000, "c10.spacing": 15000 if q else 1500000, "c10.justified": 15000 if q else 1500000, "c10.liveness": 5000 if q else 500000,
            "c10.liveness.last_step": 500 if q else 50000, "c10.liveness.step_size": 300 if q else 30000, "c10.hook_scheduler_passes": 10000 if q else 1000000}


def plan(tier, seed):
    if tier == "quick":
        n, per = 16, 600
    else:
        n, per = 64, 9000
    return [{"seed": seed, "shard": i, "per": per, "tier": tier} for i in range(n)]


_PASSES: List[float] = []
_HOOKED = False


def install_pass_hook() -> None:
    """Read-only wrapper (installed from the harness, nothing in the repository is edited) that records the instants at which
    the refresh scheduler of a browser runs a pass - including passes that send nothing, which still start a new minimum-
    spacing interval.  Needed to tell a 10 % step that the spacing rule pushed behind the expiry from one that was dropped."""
    global _HOOKED
    if _HOOKED:
        return
    from zeroconf._services import browser as B
    orig = B.QueryScheduler._process_ready_types

    def _process_ready_types(self: Any) -> None:
        _PASSES.append(B.current_time_millis())
        return orig(self)

    B.QueryScheduler._process_ready_types = _process_ready_types  # type: ignore[method-assign]
    _HOOKED = True


def eff_ttl(ttl: int) -> int:
    return ttl if (ttl == 0 or ttl >= 1125) else 1125


def gen_churn(rng: random.Random) -> Dict[str, Any]:
    """A long-running browser: one instance with a very long TTL, one that is re-announced far more often than its TTL requires
    (dozens of superseded schedule entries), and late joiners with short TTLs that are then left to expire."""
    tp = TYPES[0]
    events: List[Dict[str, Any]] = [{"t": 50, "type": tp, "alias": "nas." + tp, "ttl": rng.choice([86400, 43200, 9000]), "what": "learn", "fate": "expire"}]
    period = rng.choice([30000, 60000, 120000])
    n = rng.choice([40, 60, 90])
    for k in range(n + 1):
        events.append({"t": 50 + k * period, "type": tp, "alias": "chatty." + tp, "ttl": rng.choice([4500, 4500, 1200]), "what": "learn" if k == 0 else "refresh", "fate": "refresh"})
    for j in range(rng.choice([1, 2, 3])):
        events.append({"t": rng.choice([300, 900, 1500, 2100, 2700, 3300]) * 1000 + rng.choice([0, 50, 7000]), "type": tp, "alias": "cam%d.%s" % (j, tp),
                       "ttl": rng.choice([1125, 1200, 2000, 4500]), "what": "learn", "fate": "expire"})
    events.sort(key=lambda ev: ev["t"])
    return {"types": [tp], "delay": rng.choice([1000, 10000]), "forced": None, "events": events, "order": "churn", "prestart": False}


def gen_scenario(rng: random.Random) -> Dict[str, Any]:
    if rng.random() < 0.03:
        return gen_churn(rng)
    ntypes = rng.choice([1, 1, 2])
    types = TYPES[:ntypes]
    delay = rng.choice([1000, 10000, 10000, 60000])
    forced = rng.choice([None, None, "QU", "QM"])
    n = rng.choice([1, 2, 2, 3, 5, 8])
    order = rng.choice(["asc", "desc", "mixed", "mixed"])
    ttls = [rng.choice(TTL_CHOICES) for _ in range(n)]
    if order == "asc":
        ttls.sort()
    elif order == "desc":
        ttls.sort(reverse=True)
    events: List[Dict[str, Any]] = []
    t = rng.choice([0, 50, 5000, 20000])
    for i, ttl in enumerate(ttls):
        tp = rng.choice(types)
        alias = "inst%d.%s" % (i, tp)
        events.append({"t": t, "type": tp, "alias": alias, "ttl": ttl, "what": "learn"})
        e = eff_ttl(ttl) * 1000
        fate = rng.choice(["expire", "expire", "refresh", "refresh-late", "recase-refresh", "goodbye", "recase-goodbye", "refresh-twice",
                           "goodbye-relearn", "goodbye-relearn"])
        if fate in ("refresh", "recase-refresh", "refresh-twice"):
            frac = rng.choice([0.01, 0.3, 0.5, 0.74])
            events.append({"t": t + int(e * frac), "type": tp, "alias": alias.upper() if fate == "recase-refresh" else alias,
                           "ttl": rng.choice([ttl, 4500, 1200]), "what": fate})
            if fate == "refresh-twice":
                events.append({"t": t + int(e * frac) + rng.choice([500, 5000, 30000]), "type": tp, "alias": alias, "ttl": ttl, "what": fate})
        elif fate == "refresh-late":
            frac = rng.choice([0.76, 0.8, 0.86, 0.96, 0.999])
            events.append({"t": t + int(e * frac), "type": tp, "alias": alias, "ttl": ttl, "what": fate})
        elif fate == "goodbye-relearn":
            # withdrawn and announced again shortly afterwards (a quick service restart), then left to expire
            frac = rng.choice([0.0005, 0.001, 0.01, 0.5, 0.8])
            gap = rng.choice([1, 500, 2000, 5000, 30000, 90000])
            events.append({"t": t + int(e * frac), "type": tp, "alias": alias, "ttl": 0, "what": fate})
            events.append({"t": t + int(e * frac) + gap, "type": tp, "alias": alias if rng.random() < 0.8 else alias.upper(), "ttl": rng.choice([ttl, ttl, 4500]), "what": fate})
        elif fate in ("goodbye", "recase-goodbye"):
            frac = rng.choice([0.01, 0.5, 0.8, 0.9])
            events.append({"t": t + int(e * frac), "type": tp, "alias": alias.upper() if fate == "recase-goodbye" else alias, "ttl": 0, "what": fate})
        events[-1]["fate"] = fate
        if rng.random() < 0.25:
            # the same instance is also advertised under a subtype of the browsed type (usual DNS-SD practice); a browser of the
            # base type is handed that pointer too - a second record with the same target and its own owner name, TTL and schedule
            events.append({"t": t + rng.choice([0, 1, 300, 200000, 900000]), "type": "_printer._sub." + tp, "alias": alias,
                           "ttl": rng.choice(TTL_CHOICES), "what": "learn-subtype", "fate": "expire"})
        t += rng.choice([0, 1, 40000, 100000, 600000, 1000000])
    events.sort(key=lambda ev: ev["t"])
    return {"types": types, "delay": delay, "forced": forced, "events": events, "order": order,
            "prestart": rng.random() < 0.15}


class Epoch:
    __slots__ = ("type", "alias", "created", "ttl", "end", "end_reason")

    def __init__(self, type_: str, alias: str, created: float, ttl: int):
        self.type, self.alias, self.created, self.ttl = type_, alias, created, ttl
        self.end = created + ttl * 1000.0
        self.end_reason = "expired"


def build_epochs(events: List[Dict[str, Any]], base: float) -> List[Epoch]:
    live: Dict[Tuple[str, str], Epoch] = {}
    out: List[Epoch] = []
    for ev in events:
        t = base + ev["t"]
        key = (ev["type"].lower(), ev["alias"].lower())      # a record is identified by owner name and target
        cur = live.get(key)
        if cur is not None and cur.end <= t:
            cur = None            # already expired (maybe not yet purged; a new record then refreshes the cached object)
            live.pop(key, None)
        ttl = eff_ttl(ev["ttl"])
        if ttl == 0:
            if cur is not None:
                cur.end, cur.end_reason = t, "goodbye"
                live.pop(key, None)
            continue
        if cur is not None:
            cur.end, cur.end_reason = t, "refreshed"
        ep = Epoch(ev["type"], key[1], t, ttl)
        live[key] = ep
        out.append(ep)
    return out


def run_scenario(res: Result, seed: int, sc: Optional[Dict[str, Any]] = None) -> None:
    from zeroconf import DNSQuestionType, ServiceListener
    from zeroconf.asyncio import AsyncServiceBrowser
    rng = random.Random(seed)
    sc = sc or gen_scenario(rng)
    res.evaluations += 1
    removed: List[Tuple[float, str]] = []
    install_pass_hook()
    del _PASSES[:]

    def viol(monitor: str, kind: str, detail: str, **sig: Any) -> None:
        res.violation(monitor, kind, detail, dict(sig, delay=sc["delay"]), {"seed": seed, "scenario": sc})

    class L(ServiceListener):
        def add_service(self, zc: Any, t: str, n: str) -> None:
            pass

        def update_service(self, zc: Any, t: str, n: str) -> None:
            pass

        def remove_service(self, zc: Any, t: str, n: str) -> None:
            removed.append((sim.now_ms(), n.lower()))

    out: Dict[str, Any] = {}
    with simnet.Sim(seed & 0xFFFF) as sim:
        async def main():
            host = sim.net.add_host("H", "10.0.0.1")
            azc = await sim.start_host(host)
            zc = azc.zeroconf
            await sim.sleep_ms(rng.choice([0, 7, 1234]))
            B = sim.now_ms()
            out["B"] = B
            out["mark"] = len(sim.net.trace)
            horizon = 0.0
            start_at = 0.0
            if sc.get("prestart"):
                # the browser is started late: a pointer learned earlier sits in the cache and reaches its 75 % instant during or
                # shortly after the four start-up queries.  (Pointers owned by a *subtype* name that arrive before the browser
                # exists are never handed to it - the replay at start-up goes by the browsed name - so they are left out.)
                first = [ev for ev in sc["events"] if ev["ttl"] != 0 and ev["what"] != "learn-subtype"]
                if first:
                    due0 = first[0]["t"] + 750.0 * eff_ttl(first[0]["ttl"])
                    start_at = max(first[0]["t"] + 1.0, due0 - rng.choice([0.0, 3000.0, 9000.0, 13000.0, 14100.0, 20000.0]))
                    sc["events"] = [ev for ev in sc["events"] if not (ev["what"] == "learn-subtype" and ev["t"] <= start_at + 15000.0)]
            for i, ev in enumerate(sc["events"]):
                data = R.build_response([(("PTR", ev["type"], (ev["alias"],)), ev["ttl"], False)], id_=1000 + i)
                sim.net.inject(host, data, ("10.0.0.9", 5353), delay_ms=float(ev["t"]))
                horizon = max(horizon, ev["t"] + eff_ttl(ev["ttl"]) * 1000.0)
            qt = {None: None, "QU": DNSQuestionType.QU, "QM": DNSQuestionType.QM}[sc["forced"]]
            if start_at:
                await sim.sleep_until_ms(B + start_at)
            out["Bstart"] = sim.now_ms()
            browser = AsyncServiceBrowser(zc, sc["types"] if len(sc["types"]) > 1 else sc["types"][0], listener=L(), delay=sc["delay"], question_type=qt)
            await sim.sleep_until_ms(B + horizon + 2 * sc["delay"] + 30000)
            out["end"] = sim.now_ms()
            out["passes"] = list(_PASSES)
            await browser.async_cancel()
            await azc.async_close()

        try:
            sim.run(main())
        except Exception as e:
            viol("c10.startup", "exception", "exception during scenario: %r\n%s" % (e, tb()), exc_type=type(e).__name__)
            return
        for esc in sim.net.escapes[:1]:
            viol("c10.startup", "loop_exception", repr(esc)[:800])
        analyse(res, sim, sc, out, removed, viol)
    if res.evaluations % 29 == 1:
        res.sample({"delay": sc["delay"], "types": sc["types"], "forced": sc["forced"], "events": sc["events"][:6]})


def analyse(res: Result, sim: simnet.Sim, sc: Dict[str, Any], out: Dict[str, Any], removed: List[Tuple[float, str]], viol) -> None:
    B = out["B"]
    delay = float(sc["delay"])
    # query batches: datagrams sent at the same instant
    batches: List[Tuple[float, Set[str], List[wire.Msg]]] = []
    seen_keys: Set[Any] = set()
    for e in sim.net.trace[out["mark"]:]:
        m = wire.parse(e["data"], strict=True)
        if m.is_response or not m.questions:
            continue
        names = {q.name.text() for q in m.questions}
        keys = {(e["fd"], e["dst"], q.name.text().lower(), q.type) for q in m.questions}
        # one query goes out once per socket, in one or more datagrams, each question once per socket: a question seen a second
        # time on the same socket in the same instant belongs to a second query
        if batches and abs(batches[-1][0] - e["t"]) < 1e-6 and not (keys & seen_keys):
            batches[-1][1].update(names)
            batches[-1][2].append(m)
            seen_keys |= keys
        else:
            batches.append((e["t"], set(names), [m]))
            seen_keys = set(keys)
    epochs = build_epochs(sc["events"], B)
    res.mon("c10.hook_scheduler_passes", len(out.get("passes", [])))
    # ---- 1. start-up
    res.mon("c10.startup")
    st = batches[:4]
    if len(st) < 4:
        viol("c10.startup", "startup_count", "only %d query batches sent in total" % len(st))
        return
    d0 = st[0][0] - out.get("Bstart", B)
    if not (20.0 - 1e-6 <= d0 <= 120.0 + 1e-6):
        viol("c10.startup", "first_query_delay", "first query %.3f ms after browser start" % d0)
    for i, want in ((1, 1000.0), (2, 4000.0), (3, 9000.0)):
        gap = st[i][0] - st[i - 1][0]
        if abs(gap - want) > 1.0:
            viol("c10.startup", "startup_spacing", "start-up query %d sent %.1f ms after the previous one (expected %.0f)" % (i + 1, gap, want), index=i)
    for i, (t, names, msgs) in enumerate(st):
        if not set(sc["types"]) <= names:
            viol("c10.startup", "startup_types", "start-up query %d asks %r, browsed %r" % (i + 1, sorted(names), sc["types"]))
        for m in msgs:
            for q in m.questions:
                qu = bool(q.cls & 0x8000)
                want_qu = (sc["forced"] == "QU") or (sc["forced"] is None and i == 0)
                if qu != want_qu:
                    viol("c10.startup", "startup_question_type", "start-up query %d: QU=%s expected %s (forced %s)" % (i + 1, qu, want_qu, sc["forced"]), index=i)
                if q.type != 12:
                    viol("c10.startup", "startup_qtype", "start-up question type %d" % q.type)
    S4 = st[3][0]
    later = batches[4:]
    # ---- 2. spacing
    prev = S4
    for t, names, msgs in later:
        res.mon("c10.spacing")
        if t - prev < delay - 1.0:
            viol("c10.spacing", "queries_too_close", "query batches %.1f ms apart (configured delay %.0f)" % (t - prev, delay))
        prev = t
    # ---- 3. justified
    def active_epoch(alias_epochs: List[Epoch], t: float) -> Optional[Epoch]:
        cur = None
        for ep in alias_epochs:
            if ep.created <= t + 1e-6 and t < ep.end + 10000.0 + 1.0:   # a record stays cached until the purge after expiry
                cur = ep
        return cur

    by_type: Dict[str, Dict[str, List[Epoch]]] = {}
    for ep in epochs:
        by_type.setdefault(ep.type, {}).setdefault(ep.alias, []).append(ep)
    for t, names, msgs in later:
        for tp in names:
            res.mon("c10.justified")
            ok = False
            why = []
            for alias, eps in by_type.get(tp, {}).items():
                # the epoch current at t for this alias
                # the epoch current at t; an event in the very same virtual instant as the query may be processed before or
                # after it, so the epoch that ends at t (refresh or goodbye at t) is a candidate as well
                cands = []
                for k, ep in enumerate(eps):
                    if ep.created <= t + 1e-6:
                        cands = [ep]
                        if ep.created >= t - 1e-6 and k > 0:
                            cands.append(eps[k - 1])
                if not cands:
                    continue
                for cur in cands:
                    if cur.end_reason == "goodbye" and cur.end < t - 1e-6:
                        why.append("%s withdrawn at +%.0f" % (alias, cur.end - B))
                        continue
                    due = cur.created + 750.0 * cur.ttl
                    if t >= due - delay - 1.0 and t <= cur.created + 1000.0 * cur.ttl + delay + 1.0:
                        ok = True
                        break
                    # a browser started late takes over the schedule of what is cached; an entry that fell due during the
                    # start-up queries is served by the first pass of the scheduler, one delay after the fourth of them
                    if t <= S4 + delay + 1.0 and t >= due - delay - 1.0 and cur.created + 1000.0 * cur.ttl >= out.get("Bstart", B) - 1.0:
                        res.obs("entry_due_during_startup_served_by_first_pass")
                        ok = True
                        break
                    why.append("%s created +%.0f ttl %d due +%.0f" % (alias, cur.created - B, cur.ttl, due - B))
                if ok:
                    break
            if not ok:
                viol("c10.justified", "unjustified_query", "query for %s at +%.0f ms: no cached PTR of that type is at >=75%% of its TTL (%s)" % (tp, t - B, "; ".join(why[:3]) or "none cached"),
                     reason=("recased" if any(ev["what"].startswith("recase") for ev in sc["events"] if ev["type"] == tp) else "other"))
    # ---- 4. liveness for epochs that ran to expiry
    qtimes: Dict[str, List[float]] = {}
    for t, names, msgs in later:
        for tp in names:
            qtimes.setdefault(tp, []).append(t)
    for ep in epochs:
        if ep.end_reason != "expired":
            continue
        expiry = ep.created + 1000.0 * ep.ttl
        due = ep.created + 750.0 * ep.ttl
        if due < S4 + delay or expiry > out["end"] - delay - 1000:
            res.obs("epoch_not_judged_startup_or_horizon")
            continue
        res.mon("c10.liveness")
        ts = qtimes.get(ep.type, [])
        # Lateness bound: the churn-avoidance rule may keep a schedule up to `delay` after the ideal instant and the minimum
        # spacing after another query may add up to `delay` more.
        first = [q for q in ts if due - delay - 1.0 <= q <= due + 2 * delay + 1.0]
        if first and not [q for q in first if q <= due + delay + 1.0]:
            # more than `delay` late (but within 2 x delay).  Mechanism of known finding F22: the schedule of an earlier epoch of
            # this record was kept by the churn-avoidance rule (new 75 % instant earlier by at most `delay`) AND the query then
            # waited up to `delay` more for the minimum spacing after another pass of the scheduler.
            q0 = first[0]
            # decomposition: some earlier epoch of this record had its 75 % instant K in (due, due+delay] (churn band: that
            # schedule was kept) and the query left within `delay` after K (minimum spacing after another scheduler pass)
            kept_dues = [o.created + 750.0 * o.ttl for o in epochs if o is not ep and o.alias == ep.alias and o.type.lower() == ep.type.lower()
                         and o.created < ep.created and due < o.created + 750.0 * o.ttl <= due + delay + 1.0]
            explained = any(k - 1.0 <= q0 <= k + delay + 1.0 for k in kept_dues)
            viol("c10.liveness", "refresh_query_late", "PTR %s (ttl %d, learned +%.0f ms): first refresh query %.0f ms after its 75 %% instant, "
                 "the configured delay is %.0f ms (kept schedule(s) of earlier epochs at %r ms after that instant)" % (
                     ep.alias, ep.ttl, ep.created - B, q0 - due, delay, [round(k - due) for k in kept_dues]),
                 mechanism="churn_rule_plus_spacing" if explained else "other")
        if not first:
            nearest = min(ts, key=lambda q: abs(q - due)) if ts else None
            viol("c10.liveness", "no_refresh_query_at_75pct",
                 "PTR %s (ttl %d, learned +%.0f ms) expired at +%.0f without a query in [75%%-delay, 75%%+2*delay]; nearest query for the type at %s" % (
                     ep.alias, ep.ttl, ep.created - B, expiry - B, "+%.0f" % (nearest - B) if nearest is not None else "never"),
                 any_query_before_expiry=bool([q for q in ts if due - delay <= q < expiry]))
            continue
        step = 100.0 * ep.ttl
        maxgap = max(step + delay, 3 * delay) + 1.0
        attempts = [q for q in ts if due - delay - 1.0 <= q <= expiry]
        steps = 0
        passes = out.get("passes", [])
        for a in attempts:
            if a + step < expiry - delay - 1.0:
                steps += 1
                if not any(a < x <= a + maxgap for x in ts):
                    viol("c10.liveness", "missing_rescue_query", "PTR %s (ttl %d): query at +%.0f but none in the following %.0f ms (10%% of TTL + delay); expiry +%.0f" % (
                        ep.alias, ep.ttl, a - B, maxgap, expiry - B))
                    break
            elif a + step < expiry - 1.0:
                # The next 10 % step lies before the expiry but its lateness allowance (one delay) runs past it (delay > 5 % of
                # the TTL).  The step is owed unless the minimum spacing pushes it behind the expiry: every pass of the
                # scheduler - also one that sends nothing, its entry having been cancelled - starts a new spacing interval, so
                # a pass (read-only hook) after the previous query, before the step and less than one delay before the expiry
                # explains the absence.  Without such a pass a query for the type must leave between the step and the expiry.
                res.mon("c10.liveness.last_step")
                steps += 1
                nxt = a + step
                if any(a < x <= expiry + 1.0 for x in ts):
                    continue
                pushed = [p for p in passes if a + 1.0 < p < nxt - 1e-3 and p + delay > expiry - 1.0]
                if pushed:
                    res.obs("last_step_pushed_behind_expiry_by_spacing")
                    continue
                viol("c10.liveness", "missing_rescue_query", "PTR %s (ttl %d): query at +%.0f, the next 10%% step at +%.0f lies before the expiry at +%.0f, but no "
                     "query for the type was sent in between and no scheduler pass less than one delay before the expiry explains it" % (
                         ep.alias, ep.ttl, a - B, nxt - B, expiry - B), last_step=True)
                break
        # 'further 10 percent steps': not more often either.  Judged when this record is the only one ever learned for its type in
        # the scenario, so that every query for the type between its 75 % instant and its expiry is a refresh attempt for it.
        if len(by_type.get(ep.type, {})) == 1 and len(by_type[ep.type].get(ep.alias, [])) == 1:
            res.mon("c10.liveness.step_size")
            for a1, a2 in zip(attempts, attempts[1:]):
                if a2 - a1 < step - 1.0:
                    viol("c10.liveness", "rescue_steps_too_small", "PTR %s (ttl %d), the only record of its type: refresh queries at +%.0f and +%.0f ms are %.0f ms apart, "
                         "a 10 %% step is %.0f ms" % (ep.alias, ep.ttl, a1 - B, a2 - B, a2 - a1, step))
                    break
        res.cls("liveness", "ttl=%d" % ep.ttl, "rescues=%d" % steps)
    # Removed-by-expiry events must correspond to expired epochs
    fates = sorted({ev.get("fate", "-") for ev in sc["events"] if "fate" in ev})
    res.cls("scenario", sc["order"], "+".join(fates)[:60], "delay=%d" % sc["delay"], "types=%d" % len(sc["types"]), "forced=%s" % sc["forced"])


def witness_scenario() -> Dict[str, Any]:
    """Stored witness of known finding F22: a pointer re-learned twice within 0.5 s, the second time with a TTL that moves its
    75 % instant 55.75 s earlier - inside the churn-avoidance band (delay 60 s), so the later schedule is kept - and a pointer
    of a second type whose own refresh query goes out 18.75 s before that schedule: the minimum spacing pushes the query for
    the first record to 97 s after its 75 % instant."""
    return {"types": ["_http._tcp.local.", "_ipp._tcp.local."], "delay": 60000, "forced": None, "order": "witness",
            "events": [{"t": 0, "type": "_http._tcp.local.", "alias": "inst0._http._tcp.local.", "ttl": 120, "what": "learn"},
                       {"t": 562500, "type": "_http._tcp.local.", "alias": "inst0._http._tcp.local.", "ttl": 1200, "what": "refresh-twice"},
                       {"t": 563000, "type": "_http._tcp.local.", "alias": "inst0._http._tcp.local.", "ttl": 120, "what": "refresh-twice", "fate": "refresh-twice"},
                       {"t": 600000, "type": "_ipp._tcp.local.", "alias": "inst1._ipp._tcp.local.", "ttl": 120, "what": "learn", "fate": "expire"}]}


def witnesses(spec):
    res = Result()
    run_scenario(res, 77, witness_scenario())
    return res


def run_shard(spec):
    res = Result()
    rng = rng_for("c10", spec["seed"], spec["shard"])
    for _ in range(spec["per"]):
        run_scenario(res, rng.randrange(1 << 30))
    return res


def replay(blob):
    res = Result()
    run_scenario(res, blob["seed"])
    return res
