"""C09 - registration probes first, detects conflicts, then announces completely."""
from __future__ import annotations

import random
from typing import Any, Dict, List, Optional, Set, Tuple

from .. import respond as R
from .. import simnet, wire
from ..common import Result, rng_for, tb
from ..models import Svc

PROPERTY_ID = "C09"
LEVEL = "exploration"
RULE = ("A real Zeroconf registers a service (v4/v6/dual/multi-address, custom TTLs, both socket layouts, own-multicast loop-back "
        "delay 0/1/50 ms) while (a) nothing conflicts, (b) a conflicting PTR for the same type+instance name is injected at an "
        "offset on a 5 ms grid over [-50,400] ms around the three probe instants (plus the instants +-1 ms), with 0..4 "
        "pre-populated '-N' names, rename allowed or not, plus 0..3 unrelated (non-conflicting) responses heard during the probe phase, or (c) a second real instance owns the name and answers the probe over a "
        "link with 0..150 ms one-way delay. The host's wire trace is decoded by the independent parser: three probes 175 ms apart "
        "(QU PTR question for the type, proposed PTR in the authority section, nothing else), no record of the service multicast "
        "before the last probe, three complete announcements 225 ms apart (PTR, SRV, TXT, all A/AAAA, NSEC when a family is "
        "missing; flush bit exactly on non-PTR records); conflict before the last probe check => NonUniqueNameException or first "
        "free '-N' name, re-probed, conflicting name never announced/answered; the same through the blocking register_service of "
        "a Zeroconf() with its own loop thread, in real time (counts, order, content, outcome) (NonUniqueNameException when no '-N' name fits a "
        "label: instance labels of 61..63 bytes are generated); in a fifth of these runs a browser of the same type runs on the registering instance and has sent a QM query less than a second before the probes; in a quarter of the injected conflicts the other owner spells the name(s) in another ASCII letter case (same instance name); an expired-but-unpurged cached copy of the conflicting pointer is "
        "one of the start states; registry holds each name once. Distinct = "
        "(variant, conflict window, rename, chain length, address family, layout) classes.")
ASSUMPTIONS = ["conflict arriving within 1 ms of the last probe instant may be either detected or missed (same-instant ordering)"]

CHECK = 175.0
ANNOUNCE = 225.0


def floors(tier):
    q = tier == "quick"
    return {"c09.probe_format": 8000 if q else 900000, "c09.announce": 3000 if q else 300000, "c09.conflict": 4000 if q else 500000, "c09.registry": 4000 if q else 500000, "c09.blocking": 10 if q else 60}


def plan(tier, seed):
    if tier == "quick":
        n, per = 16, 1000
    else:
        n, per = 64, 15000
    return [{"seed": seed, "shard": i, "per": per, "tier": tier} for i in range(n)]


def gen_scenario(rng: random.Random) -> Dict[str, Any]:
    variant = rng.choice(["none", "inject", "inject", "inject", "peer"])
    s = R.gen_service(rng, type_=rng.choice(["_http._tcp.local.", "_ipp._tcp.local."]), min_ttl=2)
    # (instance labels of 61..63 bytes: a '-N' suffix may not fit into a label any more)
    s.name = rng.choice(["node", "My Printer", "dotted.name", "épsilon", "node", "L" * 61, "é" * 31, "M" * 63]) + "." + s.type
    s.server = "host-h.local."
    # one registration in five leaves `server` at its default: the host name is then the instance name itself, and a rename
    # has to move the SRV target and the owner of the address records along with it
    server_default = rng.random() < 0.2
    if server_default:
        s.server = s.name
    sc: Dict[str, Any] = {"variant": variant, "svc": s, "server_default": server_default, "layout": rng.choice(["single", "split"]), "self_delay": rng.choice([0.0, 0.0, 1.0, 50.0]),
                          "allow": rng.random() < 0.5, "chain": 0, "delta": None}
    # unrelated traffic heard while probing: other instances of the same type, other types, address records (new cache
    # entries wake the probing coroutine early; none of them conflicts with the proposed name)
    sc["noise"] = sorted(float(rng.choice([5, 30, 60, 100, 120, 170, 180, 200, 300, 340, 360])) for _ in range(rng.choice([0, 0, 1, 2, 3])))
    # queries of other hosts that arrive while the announcements are going out (two questions: the reply is assembled from the
    # SRV answer's additional set and the address answer)
    # the application registers an object it has used before (registered and unregistered earlier on this instance): whatever
    # the object memoised then must not leak into the new registration, in particular not after a rename
    sc["reuse"] = variant in ("none", "inject") and rng.random() < 0.2
    # a browser of the same type runs on the registering instance: its QM start-up queries (about 1 s, 5 s and 14 s after its
    # start) fall shortly before the probes
    sc["own_browser"] = rng.choice([1150.0, 1300.0, 1900.0, 5200.0, 14200.0]) if (variant in ("none", "inject") and rng.random() < 0.2) else None
    sc["ann_queries"] = sorted(float(rng.choice([360, 400, 450, 520, 560, 600, 640, 700, 790])) for _ in range(rng.choice([0, 0, 1, 2])))
    if variant == "inject":
        if rng.random() < 0.7:
            sc["delta"] = float(rng.randrange(-10, 81) * 5)
        else:
            sc["delta"] = rng.choice([-1.0, 0.0, 1.0, 174.0, 175.0, 176.0, 348.0, 349.0, 350.0, 351.0, 352.0, 399.0])
        sc["chain"] = rng.choice([0, 0, 1, 2, 4])
        sc["prepopulated"] = rng.random() < 0.2    # conflict already cached long before registration
        # the cache still holds an expired copy of the conflicting pointer that the 10 s purge has not removed yet (it is no
        # conflict by itself); the conflicting record heard while probing then refreshes that entry instead of creating one
        sc["stale_copy"] = (not sc["prepopulated"]) and rng.random() < 0.25
        # the other owner spells the name in another letter case (ASCII letters only): names compare case-insensitively, it is
        # the same instance name
        sc["recase"] = rng.random() < 0.25
    elif variant == "peer":
        sc["delay"] = rng.choice([0.0, 1.0, 30.0, 60.0, 85.0, 120.0, 150.0])   # one-way; a probe reply is back within 300 ms < 350 ms
        sc["chain"] = rng.choice([0, 0, 1])
    return sc


def ascii_swapcase(name: str) -> str:
    return "".join(c.swapcase() if ("a" <= c <= "z" or "A" <= c <= "Z") else c for c in name)


def run_scenario(res: Result, seed: int) -> None:
    from zeroconf import NonUniqueNameException, ServiceNameAlreadyRegistered
    rng = random.Random(seed)
    sc = gen_scenario(rng)
    s: Svc = sc["svc"]
    respell = ascii_swapcase if sc.get("recase") else (lambda n: n)
    res.evaluations += 1
    desc = {k: (v.brief() if isinstance(v, Svc) else v) for k, v in sc.items()}

    def viol(monitor: str, kind: str, detail: str, **sig: Any) -> None:
        res.violation(monitor, kind, detail, dict(sig, variant=sc["variant"]), {"seed": seed, "scenario": desc})

    policy = simnet.Policy(random.Random(seed ^ 0x55), max_delay_ms=0.0, self_delay_ms=sc["self_delay"])
    if sc["variant"] == "peer":
        policy.max_delay_ms = sc["delay"]
    out: Dict[str, Any] = {}
    with simnet.Sim(seed & 0xFFFF, policy=policy) as sim:
        async def main():
            host = sim.net.add_host("H", "10.0.0.1", "fe80::1" if sc["layout"] == "split" else None, layout=sc["layout"])
            azc = await sim.start_host(host)
            zc = azc.zeroconf
            t_engine = sim.now_ms()
            inst = s.name[: -len(s.type) - 1]
            taken = [s.name] + ["%s-%d.%s" % (inst, k, s.type) for k in range(2, 2 + sc["chain"]) if len(("%s-%d" % (inst, k)).encode("utf-8")) <= 63]
            peer_azc = None
            if sc["variant"] == "peer":
                peer = sim.net.add_host("P", "10.0.0.2")
                peer_azc = await sim.start_host(peer)
                for nm in taken:
                    ps = Svc(s.type, nm, "host-p.local.", 9, b"", [b"\x0a\x00\x00\x02"], [], 120, 4500)
                    t = await peer_azc.async_register_service(R.make_info(ps), cooperating_responders=True)
                    await t
                # let H forget what it overheard from P's announcements so only the probe reply can reveal the conflict
                await sim.sleep_ms(2000)
                zc.cache.cache.clear()
                zc.cache.service_cache.clear()
            if sc["variant"] == "inject" and sc.get("stale_copy"):
                # the purge runs every 10 s from the start of the engine; a pointer (TTL floor 1125 s = 112.5 periods) heard
                # half a second after a purge expires 5.5 s after one and is then left in the cache for 4.5 s
                await sim.sleep_until_ms(t_engine + 10000.0 + 500.0)
                sim.net.inject_now(host, R.build_response([(("PTR", s.type, (respell(s.name),)), 1, False)], id_=6), ("10.0.0.9", 5353))
                await sim.sleep_ms(1125000.0 + 1.0)
            if sc["variant"] == "inject":
                for nm in taken[1:]:
                    sim.net.inject_now(host, R.build_response([(("PTR", s.type, (respell(nm),)), 4500, False)], id_=7), ("10.0.0.9", 5353))
                if sc.get("prepopulated"):
                    sim.net.inject_now(host, R.build_response([(("PTR", s.type, (respell(s.name),)), 4500, False)], id_=8), ("10.0.0.9", 5353))
                    await sim.sleep_ms(rng.choice([0, 5000]))
            await sim.sleep_ms(rng.choice([0, 3, 1000]))
            info = R.make_info(s)
            if sc.get("server_default"):
                from zeroconf import ServiceInfo
                info = ServiceInfo(s.type, s.name, s.port, s.weight, s.priority, s.text, None, host_ttl=s.host_ttl, other_ttl=s.other_ttl,
                                   addresses=list(s.addrs4) + list(s.addrs6))
            out["info"] = info
            if sc.get("reuse") and not sc.get("prepopulated") and not sc.get("stale_copy"):
                res.obs("object_reused_after_earlier_registration")
                t = await zc.async_register_service(info, cooperating_responders=True)
                await t
                # (a query while registered fills the memoised record sets)
                sim.net.inject_now(host, R.build_query([(s.type, 12, False)], id_=3), ("10.0.0.34", 5353))
                await sim.sleep_ms(700)
                t = await zc.async_unregister_service(info)
                await t
                await sim.sleep_ms(1500)
            if sc.get("stale_copy"):
                held = [r for r in zc.cache.get_all_by_details(s.type, 12, 1) if r.alias.lower() == s.name.lower()]
                res.obs("stale_copy_held_expired_at_start" if (held and held[0].is_expired(sim.now_ms())) else "stale_copy_not_as_planned")
            own_browser = None
            if sc.get("own_browser"):
                from zeroconf import ServiceListener
                from zeroconf.asyncio import AsyncServiceBrowser

                class Quiet(ServiceListener):
                    def add_service(self, *a: Any) -> None: pass
                    def remove_service(self, *a: Any) -> None: pass
                    def update_service(self, *a: Any) -> None: pass
                own_browser = AsyncServiceBrowser(zc, s.type, listener=Quiet())
                await sim.sleep_ms(sc["own_browser"])
            P0 = sim.now_ms()
            out["P0"] = P0
            out["mark"] = len(sim.net.trace)
            if sc["variant"] == "inject" and not sc.get("prepopulated"):
                delta = sc["delta"]
                data = R.build_response([(("PTR", s.type, (respell(s.name),)), 4500, False)], id_=9)
                if delta < 0:
                    sim.net.inject_now(host, data, ("10.0.0.9", 5353))   # just before registering (|delta| irrelevant once cached)
                else:
                    sim.net.inject(host, data, ("10.0.0.9", 5353), delay_ms=delta)
            for k, qoff in enumerate(sc.get("ann_queries", [])):
                qd = R.build_query([(s.name, 33, False), (s.server, 1 if s.addrs4 else 28, False)], id_=0)
                sim.net.inject(host, qd, ("10.0.0.5%d" % k, 5353), delay_ms=qoff)
            for k, noff in enumerate(sc["noise"]):
                other = "neighbour%d-%d.%s" % (k, rng.randrange(1000), s.type if k % 2 == 0 else "_other._tcp.local.")
                ndata = R.build_response([(("PTR", other.split(".", 1)[1], (other,)), 4500, False), (("A", "nb%d.local." % k, (bytes([10, 9, 9, k + 1]),)), 120, True)], id_=300 + k)
                sim.net.inject(host, ndata, ("10.0.0.4%d" % k, 5353), delay_ms=noff)
            try:
                task = await zc.async_register_service(info, allow_name_change=sc["allow"])
                out["result"] = "registered"
                out["done_at"] = sim.now_ms()
                await task
            except NonUniqueNameException:
                out["result"] = "nonunique"
                out["done_at"] = sim.now_ms()
            out["final_name"] = info.name
            # afterwards: a PTR query; the conflicting name must not be answered for
            await sim.sleep_ms(1500)
            out["query_mark"] = len(sim.net.trace)
            sim.net.inject(host, R.build_query([(s.type, 12, False)], id_=77), ("10.0.0.33", 5353))
            await sim.sleep_ms(1500)
            # registry invariant + double registration
            res.mon("c09.registry")
            reg = zc.registry
            keys = list(reg._services)
            for idx_name, idx in (("types", reg.types), ("servers", reg.servers)):
                flat = [k for lst in idx.values() for k in lst]
                if len(set(flat)) != len(flat) or set(flat) != set(keys):
                    viol("c09.registry", "index_inconsistent", "registry.%s=%r services=%r" % (idx_name, dict(idx), keys))
            if out["result"] == "registered":
                try:
                    t2 = await zc.async_register_service(R.make_info(Svc(s.type, info.name, s.server, s.port, s.text, s.addrs4, s.addrs6)), cooperating_responders=True)
                    await t2
                    viol("c09.registry", "same_name_registered_twice", "second registration of %s accepted" % info.name)
                except ServiceNameAlreadyRegistered:
                    pass
                if len([k for k in reg._services if k == info.name.lower()]) != 1:
                    viol("c09.registry", "name_not_held_once", "registry holds %r" % list(reg._services))
            else:
                if reg._services:
                    viol("c09.registry", "failed_registration_left_entry", "registry holds %r after NonUniqueNameException" % list(reg._services))
            if own_browser is not None:
                await own_browser.async_cancel()
            await azc.async_close()
            if peer_azc:
                await peer_azc.async_close()

        try:
            sim.run(main())
        except Exception as e:
            viol("c09.probe_format", "exception", "exception during scenario: %r\n%s" % (e, tb()), exc_type=type(e).__name__)
            return
        for esc in sim.net.escapes[:1]:
            viol("c09.probe_format", "loop_exception", repr(esc)[:800])
        analyse(res, sim, sc, out, viol)
    if res.evaluations % 41 == 1:
        res.sample(dict(desc, result=out.get("result"), final_name=out.get("final_name")))


def analyse(res: Result, sim: simnet.Sim, sc: Dict[str, Any], out: Dict[str, Any], viol) -> None:
    s: Svc = sc["svc"]
    P0 = out["P0"]
    inst = s.name[: -len(s.type) - 1]
    final_name = out["final_name"]
    # the host's transmissions, one logical datagram per send (split layout sends one copy per respond socket: keep the first fd)
    entries = [e for e in sim.net.trace[out["mark"]:] if e["host"] == "H"]
    fds = sorted({e["fd"] for e in entries if e["mcast"]})
    main_fd = fds[0] if fds else None
    entries = [e for e in entries if e["fd"] == main_fd or not e["mcast"]]
    probes: List[Tuple[float, str]] = []
    responses: List[Tuple[Dict[str, Any], wire.Msg]] = []
    for e in entries:
        m = wire.parse(e["data"], strict=True)
        if not m.is_response:
            if e["i"] >= 0 and m.authorities:
                res.mon("c09.probe_format")
                ok = (len(m.questions) == 1 and m.questions[0].type == 12 and bool(m.questions[0].cls & 0x8000)
                      and m.questions[0].name.text() == s.type and len(m.authorities) == 1 and not m.answers and not m.additionals
                      and m.authorities[0].type == 12 and e["mcast"])
                if not ok:
                    viol("c09.probe_format", "probe_malformed", "probe at +%.0f ms: questions=%r authorities=%r answers=%d" % (
                        e["t"] - P0, [q.tup() for q in m.questions], [r.tup() for r in m.authorities], len(m.answers)))
                else:
                    probes.append((e["t"], m.authorities[0].rdata.text()))
        else:
            responses.append((e, m))
    # group probes by proposed name
    by_name: Dict[str, List[float]] = {}
    for t, nm in probes:
        by_name.setdefault(nm, []).append(t)
    conflict_expected = None
    if sc["variant"] == "inject":
        d = -1.0 if sc.get("prepopulated") else sc["delta"]
        if d <= 350.0 - 1.0:
            conflict_expected = True
        elif d >= 350.0 + 1.0:
            conflict_expected = False
    elif sc["variant"] == "peer":
        conflict_expected = True
    else:
        conflict_expected = False
    window = "none" if sc["variant"] == "none" else ("peer" if sc["variant"] == "peer" else window_of(-1.0 if sc.get("prepopulated") else sc["delta"]))
    res.mon("c09.conflict")
    result = out["result"]
    first_free = s.name
    if conflict_expected:
        k = 2
        taken = {s.name} | {"%s-%d.%s" % (inst, j, s.type) for j in range(2, 2 + sc["chain"]) if len(("%s-%d" % (inst, j)).encode("utf-8")) <= 63}
        while "%s-%d.%s" % (inst, k, s.type) in taken:
            k += 1
        first_free = "%s-%d.%s" % (inst, k, s.type)
        if sc["allow"] and len(("%s-%d" % (inst, k)).encode("utf-8")) > 63:
            # the first free '-N' name is no legal name (instance label over 63 bytes): nothing to proceed under, the registration
            # fails as a conflict and the caller's object keeps its name
            res.cls("rename_impossible", "chain=%d" % sc["chain"])
            if result != "nonunique" or final_name != s.name:
                viol("c09.conflict", "wrong_name_after_conflict", "conflict (%s, chain %d) and the first free name %r is too long for a label: result %s name %r, expected "
                     "NonUniqueNameException with the name unchanged" % (window, sc["chain"], first_free[:24] + "...", result, final_name[:24] + "..."), window=window, allow=True,
                     rename_impossible=True)
        elif not sc["allow"]:
            if result != "nonunique":
                viol("c09.conflict", "conflict_not_detected", "conflict (%s) but registration of %s succeeded" % (window, final_name), window=window, allow=False)
        else:
            if result != "registered" or final_name != first_free:
                viol("c09.conflict", "wrong_name_after_conflict", "conflict (%s, chain %d): result %s name %s, expected %s" % (window, sc["chain"], result, final_name, first_free),
                     window=window, allow=True)
    elif conflict_expected is False:
        if result != "registered" or final_name != s.name:
            viol("c09.conflict", "spurious_conflict", "no conflict before the last probe check (%s) but result %s name %s" % (window, result, final_name), window=window)
    # probe schedule for the name finally registered
    if result == "registered":
        res.mon("c09.announce")
        times = by_name.get(final_name, [])
        if len(times) != 3:
            viol("c09.announce", "probe_count", "%d probes sent for %s (expected 3): %r" % (len(times), final_name, [round(t - P0, 1) for t in times]), count=len(times))
        else:
            gaps = [times[1] - times[0], times[2] - times[1]]
            if any(abs(g - CHECK) > 1.0 for g in gaps):
                viol("c09.announce", "probe_spacing", "probes for %s at %r (gaps %r, expected 175)" % (final_name, [round(t - P0, 1) for t in times], gaps))
        last_probe = max(times) if times else P0
        # announcements: responses whose answer section carries PTR+SRV+TXT of the final name
        svc_final = Svc(s.type, final_name, final_name if sc.get("server_default") else s.server, s.port, s.text, s.addrs4, s.addrs6, s.host_ttl, s.other_ttl,
                        s.priority, s.weight)
        complete = set(svc_final.all_records())
        ann = []
        for e, m in responses:
            if e["i"] >= out.get("query_mark", 1 << 60):
                continue
            ids = {R.ident_of_wire(r): r for r in m.answers}
            mine = {R.ident_of_wire(r) for r in m.answers + m.additionals} & complete
            if mine and e["t"] < last_probe - 1e-6 and e["mcast"]:
                viol("c09.announce", "announced_before_last_probe", "records %r multicast at +%.0f ms, last probe at +%.0f ms" % (sorted(mine, key=repr)[:2], e["t"] - P0, last_probe - P0))
            if svc_final.ptr() in ids and svc_final.srv() in ids and svc_final.txt() in ids and e["mcast"]:
                ann.append((e, m, ids))
        if len(ann) != 3:
            viol("c09.announce", "announcement_count", "%d complete announcements (expected 3) at %r" % (len(ann), [round(e["t"] - P0, 1) for e, _, _ in ann]), count=len(ann))
        else:
            ts = [e["t"] for e, _, _ in ann]
            if abs((ts[1] - ts[0]) - ANNOUNCE) > 1.0 or abs((ts[2] - ts[1]) - ANNOUNCE) > 1.0:
                viol("c09.announce", "announcement_spacing", "announcements at %r" % ([round(t - P0, 1) for t in ts],))
        for e, m, ids in ann:
            missing = complete - set(ids)
            if missing:
                viol("c09.announce", "announcement_incomplete", "announcement lacks %r" % (sorted(missing, key=repr)[:3],), missing_kind=sorted(k[0] for k in missing)[0])
            for ident, r in ids.items():
                want_flush = ident[0] != "PTR"
                if bool(r.cls & 0x8000) != want_flush:
                    viol("c09.announce", "flush_bit", "%r announced with flush bit %s" % (ident, bool(r.cls & 0x8000)), kind_of_record=ident[0])
                ttl_want = svc_final.all_records().get(ident)
                if ttl_want is not None and r.ttl != ttl_want:
                    viol("c09.announce", "announce_ttl", "%r announced with ttl %d (configured %d)" % (ident, r.ttl, ttl_want))
            if (m.flags & 0x8400) != 0x8400 or wire.header_counts(e["data"])[0] != 0 or m.questions:
                viol("c09.announce", "announce_header", "announcement flags %#x id %d questions %d" % (m.flags, wire.header_counts(e["data"])[0], len(m.questions)))
    # the conflicting name(s) never announced / answered for
    if conflict_expected:
        bad_names = {s.name.lower()} | {("%s-%d.%s" % (inst, j, s.type)).lower() for j in range(2, 2 + sc["chain"])}
        for e, m in responses:
            for r in m.answers + m.additionals:
                ident = R.ident_of_wire(r)
                if r.ttl > 0 and ((ident[0] == "PTR" and ident[2][0] in bad_names) or (ident[0] in ("SRV", "TXT") and ident[1] in bad_names) or
                                  (sc.get("server_default") and ((ident[0] in ("A", "AAAA", "NSEC") and ident[1] in bad_names) or
                                                                 (ident[0] == "SRV" and ident[2][3] in bad_names)))):
                    viol("c09.conflict", "conflicting_name_sent", "host sent %r (ttl %d) for a name owned by someone else at +%.0f ms" % (ident, r.ttl, e["t"] - P0), window=window)
    fam = ("dual" if s.addrs4 and s.addrs6 else ("v4" if s.addrs4 else "v6")) + ("-multi" if len(s.addrs4) + len(s.addrs6) > 2 else "")
    res.cls(sc["variant"], window, "rename" if sc["allow"] else "strict", "chain=%d" % sc["chain"], fam, sc["layout"], result, "selfdelay=%g" % sc["self_delay"],
            "noise=%d" % len(sc["noise"]))


def window_of(d: float) -> str:
    if d < 0:
        return "before-P1"
    if d in (0.0, 175.0, 350.0):
        return "at-instant"
    if d in (1.0, 174.0, 176.0, 349.0, 351.0):
        return "instant+-1"
    if d < 175:
        return "P1-P2"
    if d < 350:
        return "P2-P3"
    return "after-P3"


def run_blocking(res: Result, seed: int, variant: int = 0) -> None:
    """register_service() of the blocking API, called from a non-loop thread of a Zeroconf() with its own loop thread (real
    time, fake sockets): with a conflicting pointer cached beforehand, heard ~100 ms into probing, or not at all.  Judged on
    counts, order and content (real-time spacing is only required to lie within 100 ms of 175 / 225 ms): three probes, then
    three complete announcements, none before the last probe; conflict => NonUniqueNameException in the calling thread or the
    first free '-N' name, the conflicting name never announced."""
    import time
    from zeroconf import NonUniqueNameException
    from ..threadrun import BlockingInstance
    rng = random.Random(seed)
    res.evaluations += 1
    s = R.gen_service(rng, type_=rng.choice(["_http._tcp.local.", "_ipp._tcp.local."]), min_ttl=10)
    inst = rng.choice(["blk node", "Blk.Dotted", "blké"])
    s.name = inst + "." + s.type
    s.server = "blk-host.local."
    # the variants are dealt out, not drawn: (conflict, seconds into the call at which it is heard, renaming allowed); a
    # conflict heard after the second probe with renaming allowed makes the whole call last more than a second
    VARIANTS = [("during", 0.26, True), ("none", 0.0, True), ("cached", 0.0, False), ("during", 0.1, False), ("during", 0.3, True), ("cached", 0.0, True),
                ("during", 0.2, True), ("during", 0.05, True), ("none", 0.0, False), ("during", 0.33, True)]
    conflict, during_at, allow = VARIANTS[variant % len(VARIANTS)]
    desc = {"blocking": True, "svc": s.brief(), "conflict": conflict, "allow": allow, "during_at": during_at, "variant": variant}

    def viol(monitor: str, kind: str, detail: str, **sig: Any) -> None:
        res.violation(monitor, kind, detail, dict(sig, family="blocking"), {"seed": seed, "blocking": True, "variant": variant, "scenario": desc})

    try:
        with BlockingInstance() as bi:
            zc = bi.zc
            cdata = R.build_response([(("PTR", s.type, (s.name,)), 4500, False)], id_=9)
            if conflict == "cached":
                bi.inject(cdata)
                bi.settle(5)
            elif conflict == "during":
                import threading
                threading.Timer(during_at, bi.inject, args=(cdata,)).start()
            info = R.make_info(s)
            result = "registered"
            t0 = bi.now_ms()
            try:
                zc.register_service(info, allow_name_change=allow)
            except NonUniqueNameException:
                result = "nonunique"
            took = bi.now_ms() - t0
            time.sleep(0.05)
            res.mon("c09.blocking")
            final = info.name
            if conflict == "none":
                if result != "registered" or final != s.name:
                    viol("c09.conflict", "spurious_conflict", "blocking register_service without any conflict: %s, name %s" % (result, final))
            elif not allow:
                if result != "nonunique":
                    viol("c09.conflict", "conflict_not_detected", "blocking register_service: conflict (%s) but registration of %s succeeded" % (conflict, final), allow=False)
            else:
                if result != "registered" or final != "%s-2.%s" % (inst, s.type):
                    viol("c09.conflict", "wrong_name_after_conflict", "blocking register_service: conflict (%s): result %s name %s, expected %s-2" % (conflict, result, final, inst), allow=True)
            probes: List[Tuple[float, str]] = []
            anns: List[Tuple[float, Any]] = []
            for e in bi.net.trace:
                m, _ = wire.try_parse(e["data"], strict=True)
                if m is None or not e["mcast"]:
                    continue
                if not m.is_response and m.authorities:
                    probes.append((e["t"], m.authorities[0].rdata.text() if hasattr(m.authorities[0].rdata, "text") else ""))
                elif m.is_response:
                    ids = {R.ident_of_wire(r) for r in m.answers}
                    ptrs = [i for i in ids if i[0] == "PTR" and i[1] == s.type.lower()]
                    if ptrs and any(r.ttl > 0 for r in m.answers):
                        anns.append((e["t"], ids))
                        if ptrs[0][2][0] == s.name.lower() and conflict != "none":
                            viol("c09.conflict", "conflicting_name_sent", "blocking register_service: the conflicting name %s was announced" % s.name)
            if result == "registered":
                res.mon("c09.announce")
                mine = [t for t, target in probes if target.lower() == final.lower()]
                if len(mine) != 3:
                    viol("c09.announce", "probe_count", "blocking register_service: %d probes for %s (expected 3)" % (len(mine), final), count=len(mine))
                svc_final = Svc(s.type, final, s.server, s.port, s.text, s.addrs4, s.addrs6, s.host_ttl, s.other_ttl, s.priority, s.weight)
                complete = set(svc_final.all_records())
                # (an announcement carries PTR, SRV and TXT in its answer section; the host's reply to its own last probe - the
                #  pointer alone - is no announcement)
                mine_a = [(t, ids) for t, ids in anns if {svc_final.ptr(), svc_final.srv(), svc_final.txt()} <= ids]
                if len(mine_a) != 3:
                    viol("c09.announce", "announcement_count", "blocking register_service returned after %.0f ms with %d announcements on the wire (expected 3)" % (took, len(mine_a)), count=len(mine_a))
                for t, ids in mine_a:
                    if not complete <= ids:
                        viol("c09.announce", "announcement_incomplete", "blocking register_service: announcement lacks %r" % (sorted(complete - ids, key=repr)[:3],))
                        break
                if mine and mine_a and mine_a[0][0] < max(mine) - 1.0:
                    viol("c09.announce", "announced_before_last_probe", "blocking register_service: announcement %.0f ms before the last probe" % (max(mine) - mine_a[0][0]))
                if len(mine) == 3 and any(abs((b - a) - CHECK) > 100.0 for a, b in zip(mine, mine[1:])):
                    res.obs("blocking_probe_spacing_off_by_more_than_100ms_machine_load")
            bad = [e for e in bi.net.escapes if "was destroyed but it is pending" not in str(e.get("message"))]
            if bad:
                viol("c09.probe_format", "loop_exception", repr(bad[0])[:600])
            res.cls("blocking", conflict, "rename" if allow else "strict", result)
    except Exception as e:
        viol("c09.probe_format", "exception", "exception in the blocking registration run: %r\n%s" % (e, tb()), exc_type=type(e).__name__)


def run_shard(spec):
    res = Result()
    rng = rng_for("c09", spec["seed"], spec["shard"])
    for _ in range(spec["per"]):
        run_scenario(res, rng.randrange(1 << 30))
    if spec["shard"] in ((2, 3, 4, 5) if spec["tier"] == "quick" else range(2, 26)):
        for j in range(3):
            run_blocking(res, rng.randrange(1 << 30), variant=(spec["shard"] - 2) * 3 + j)
    return res


def replay(blob):
    res = Result()
    if blob.get("blocking"):
        run_blocking(res, blob["seed"], blob.get("variant", 0))
        return res
    run_scenario(res, blob["seed"])
    return res
