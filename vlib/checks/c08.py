"""C08 - withdrawn services stay withdrawn: complete goodbyes, no resurrection."""
from __future__ import annotations

import random
from typing import Any, Dict, List, Optional, Set, Tuple

from .. import respond as R
from .. import simnet, wire
from ..common import Result, rng_for, tb
from ..models import ResponderModel, Svc

PROPERTY_ID = "C08"
LEVEL = "exploration"
RULE = ("A real Zeroconf with 1..3 registered services (sharing or not sharing a host name, v4/v6/dual, both socket layouts) "
        "receives 0..5 injected queries at offsets -1300..+260 ms (10 ms grid and random) around the instant U at which one "
        "service is unregistered (or the instance closed): PTR/SRV/TXT/A/ANY, single and multi-question, QM/QU, from port 5353 "
        "and legacy ports, TC-flagged (deferred), two queries 15..400 ms apart, with U placed 0..3000 ms after the last "
        "announcement so answers land in the immediate, aggregation (<=500 ms) or protected (1 s) queue. The wire trace of the host "
        "is decoded by the independent parser. (a) exactly three goodbye datagrams in [U, U+250 ms] each with TTL-0 PTR, SRV, TXT "
        "and (iff the host name is not shared with a remaining service) A/AAAA/NSEC; (b) after the third goodbye no datagram "
        "carries any of those records with TTL>0, observed for 5 s. One run in eight is a 'flap': a service unregistered 0..460 ms "
        "after it was registered (its own announcements still pending) while the same name is registered again 0..600 ms later as "
        "a different ServiceInfo; the withdrawn SRV/TXT must not reappear after their goodbyes. Another one in eight is a 'sequence': "
        "two services sharing a host withdrawn one after the other (or an address update followed by unregister) while a reply to a "
        "host-address query is queued - nothing withdrawn may leave afterwards in any section, additionals included. Distinct = (queue involved, query kind, offset bucket, host "
        "shared, withdraw API) classes.")
ASSUMPTIONS = ["outside the flap runs the unregister is issued after the registration's own announcement task finished (quantifier: timing relative to incoming queries)"]


def floors(tier):
    q = tier == "quick"
    return {"c08.goodbye_complete": 5000 if q else 600000, "c08.no_resurrection": 5000 if q else 600000}


def plan(tier, seed):
    if tier == "quick":
        n, per = 16, 900
    else:
        n, per = 64, 15000
    return [{"seed": seed, "shard": i, "per": per, "tier": tier} for i in range(n)]


def scenario(rng: random.Random) -> Dict[str, Any]:
    n = rng.choice([1, 1, 2, 3]) if rng.random() < 0.93 else rng.choice([10, 14])   # many services: goodbye rounds of several datagrams
    svcs: List[Svc] = []
    share = rng.random() < 0.5
    for i in range(n):
        s = R.gen_service(rng, type_=rng.choice(["_http._tcp.local.", "_ipp._tcp.local."]), min_ttl=10)
        s.name = "svc%d.%s" % (i, s.type)
        if share and svcs:
            s.server = svcs[0].server
        else:
            s.server = R.spell(rng, "host%d" % i) + ".local."
        svcs.append(s)
    gap = rng.choice([0, 10, 300, 700, 990, 1000, 1010, 1500, 3000])
    nq = rng.choice([0, 1, 1, 2, 2, 3, 5])
    queries = []
    for _ in range(nq):
        off = rng.choice([-1300, -1200, -1100, -1000, -600, -500, -400, -130, -120, -100, -20, -10, 0, 10, 100, 125, 200, 250, 260]) \
            if rng.random() < 0.6 else rng.randrange(-130, 27) * 10
        target = rng.choice(svcs)
        kind = rng.choice(["ptr", "ptr", "srv", "txt", "a", "any-type", "any-inst", "multi", "enum"])
        qu = rng.random() < 0.25
        legacy = rng.random() < 0.15
        tc = rng.random() < 0.15
        queries.append({"off": off, "svc": svcs.index(target), "kind": kind, "qu": qu, "legacy": legacy, "tc": tc})
        if rng.random() < 0.3:
            queries.append({"off": off + rng.choice([15, 50, 120, 400]), "svc": svcs.index(target), "kind": rng.choice(["ptr", "srv", "multi"]),
                            "qu": False, "legacy": False, "tc": False})
    return {"svcs": svcs, "victim": rng.randrange(n), "gap": gap, "queries": queries, "api": rng.choice(["unregister", "unregister", "unregister", "close", "unregister_all"]),
            "layout": rng.choice(["single", "split"])}


def questions_for(q: Dict[str, Any], s: Svc) -> List[Tuple[str, int, bool]]:
    k = q["kind"]
    qu = q["qu"]
    if k == "ptr":
        return [(s.type, 12, qu)]
    if k == "srv":
        return [(s.name, 33, qu)]
    if k == "txt":
        return [(s.name, 16, qu)]
    if k == "a":
        return [(s.server, 1 if s.addrs4 else 28, qu)]
    if k == "any-type":
        return [(s.type, 255, qu)]
    if k == "any-inst":
        return [(s.name, 255, qu)]
    if k == "enum":
        return [("_services._dns-sd._udp.local.", 12, qu)]
    return [(s.type, 12, qu), (s.name, 33, False), (s.name, 16, qu), (s.server, 1, False)]


def run_scenario(res: Result, seed: int) -> None:
    rng = random.Random(seed)
    sc = scenario(rng)
    res.evaluations += 1
    svcs: List[Svc] = sc["svcs"]
    victim = svcs[sc["victim"]]
    replay = {"seed": seed}
    desc = {"svcs": [s.brief() for s in svcs], "victim": victim.name, "gap": sc["gap"], "api": sc["api"],
            "queries": sc["queries"], "layout": sc["layout"]}

    def viol(monitor: str, kind: str, detail: str, **sig: Any) -> None:
        res.violation(monitor, kind, detail, sig, dict(replay, scenario=desc))

    with simnet.Sim(seed & 0xFFFF) as sim:
        out: Dict[str, Any] = {}

        async def main():
            host = sim.net.add_host("H", "10.0.0.1", "fe80::1" if sc["layout"] == "split" else None, layout=sc["layout"])
            azc = await sim.start_host(host)
            zc = azc.zeroconf
            infos = []
            tasks = []
            for s in svcs:
                info = R.make_info(s)
                infos.append(info)
                tasks.append(await zc.async_register_service(info, cooperating_responders=True))
            for t in tasks:
                await t
            await sim.sleep_ms(sc["gap"])
            t0 = sim.now_ms()
            U = t0 + 1400.0
            for i, q in enumerate(sc["queries"]):
                qs = questions_for(q, svcs[q["svc"]])
                data = R.build_query(qs, id_=100 + i, tc=q["tc"])
                src = ("10.0.0.%d" % (60 + i % 3), 5353 if not q["legacy"] else 40000 + i)
                sim.net.inject(host, data, src, delay_ms=U + q["off"] - t0, multicast=not q["legacy"])
            await sim.sleep_until_ms(U)
            out["U"] = sim.now_ms()
            out["mark"] = len(sim.net.trace)
            if sc["api"] == "unregister":
                task = await zc.async_unregister_service(infos[sc["victim"]])
                await task
                await sim.sleep_ms(5000)
                await azc.async_close()
            elif sc["api"] == "unregister_all":
                # every service withdrawn at once while the instance keeps running (and keeps receiving the queries)
                await zc.async_unregister_all_services()
                await sim.sleep_ms(5000)
                await azc.async_close()
            else:
                await azc.async_close()
                await sim.sleep_ms(5000)

        try:
            sim.run(main())
        except Exception as e:
            viol("c08.goodbye_complete", "exception", "exception during scenario: %r\n%s" % (e, tb()), exc_type=type(e).__name__)
            return
        if sim.net.escapes:
            viol("c08.goodbye_complete", "loop_exception", repr(sim.net.escapes[0])[:800])
        analyse(res, sim, sc, out, viol)
    if res.evaluations % 41 == 1:
        res.sample(desc)


def analyse(res: Result, sim: simnet.Sim, sc: Dict[str, Any], out: Dict[str, Any], viol) -> None:
    svcs: List[Svc] = sc["svcs"]
    U = out["U"]
    withdrawn = svcs if sc["api"] in ("close", "unregister_all") else [svcs[sc["victim"]]]
    remaining = [] if sc["api"] in ("close", "unregister_all") else [s for s in svcs if s is not svcs[sc["victim"]]]
    trace = [e for e in sim.net.trace if e["t"] >= U - 1e-6 and e["i"] >= 0]
    # one entry per datagram *per sending socket*: analyse per socket so split layouts are not double counted
    by_sock: Dict[int, List[Dict[str, Any]]] = {}
    sender_fds = {e["fd"] for e in sim.net.trace if e["mcast"]}      # sockets used for multicast (a listen-only socket may send unicast replies)
    for e in trace:
        if e["fd"] in sender_fds:
            by_sock.setdefault(e["fd"], []).append(e)
    for e in trace:
        if e["fd"] not in sender_fds:
            # unicast replies sent through a listen-only socket: judged for resurrection together with every sender socket
            for fd in by_sock:
                by_sock[fd].append(e)
    for fd in by_sock:
        by_sock[fd].sort(key=lambda x: x["i"])
    queue_cls = classify_queue(sc)
    for s in withdrawn:
        shared = any(r.server.lower() == s.server.lower() for r in remaining)
        owner = s.name.lower()
        for fd, entries in by_sock.items():
            res.mon("c08.goodbye_complete")
            goodbyes = []
            third_index: Optional[int] = None
            for e in entries:
                if not e["mcast"]:
                    continue
                m = wire.parse(e["data"], strict=True)
                recs = m.answers + m.additionals
                ids = {(R.ident_of_wire(r), r.ttl) for r in recs}
                if (s.ptr(), 0) in ids:
                    goodbyes.append((e, m))
                    if len(goodbyes) == 3:
                        third_index = e["i"]
            if len(goodbyes) != 3:
                viol("c08.goodbye_complete", "goodbye_count", "service %s: %d goodbye datagrams on socket %d (expected 3)" % (s.name, len(goodbyes), fd),
                     count=len(goodbyes), api=sc["api"])
            for e, m in goodbyes:
                if e["t"] > U + 250 + 1.0:
                    viol("c08.goodbye_complete", "goodbye_late", "goodbye at U+%.1f ms" % (e["t"] - U), api=sc["api"])
                # a goodbye round of many services is split over several datagrams sent in the same instant: the records of one
                # service may be spread over two of them
                zero = set()
                for e2 in entries:
                    if e2["mcast"] and abs(e2["t"] - e["t"]) <= 0.5:
                        m2 = m if e2 is e else wire.parse(e2["data"], strict=True)
                        if m2.is_response:
                            zero |= {R.ident_of_wire(r) for r in m2.answers + m2.additionals if r.ttl == 0}
                need = {s.srv(), s.txt()}
                if not shared:
                    need |= s.addr_and_nsec()
                missing = need - zero
                if missing:
                    viol("c08.goodbye_complete", "goodbye_incomplete", "goodbye for %s lacks TTL-0 copies of %r" % (s.name, sorted(missing, key=repr)[:3]),
                         missing_kind=sorted(k[0] for k in missing)[0], shared=shared, api=sc["api"])
                if shared:
                    bad = [i for i in zero if i[0] in ("A", "AAAA") and i[1] == s.server.lower()]
                    if bad:
                        viol("c08.goodbye_complete", "address_goodbye_for_shared_host", "goodbye for %s withdraws %r although %s is still used" % (s.name, bad[:2], s.server),
                             api=sc["api"])
            # (b) no resurrection after the third goodbye
            if third_index is not None:
                res.mon("c08.no_resurrection")
                for e in entries:
                    if e["i"] <= third_index:
                        continue
                    m = wire.parse(e["data"], strict=True)
                    for r in m.answers + m.additionals:
                        if r.ttl == 0:
                            continue
                        ident = R.ident_of_wire(r)
                        # "those records": the ones the goodbye sequence withdrew (address/NSEC only when the host is not shared)
                        mine = (ident == s.ptr()) or (ident[0] in ("SRV", "TXT") and ident[1] == owner) or \
                               (not shared and ident[0] == "NSEC" and ident[1] == owner) or \
                               (not shared and ident[0] in ("A", "AAAA") and ident[1] == s.server.lower())
                        if mine:
                            viol("c08.no_resurrection", "record_sent_after_goodbye",
                                 "%s: %r sent with ttl %d at U+%.0f ms, %.0f ms after the third goodbye (%s)" % (
                                     s.name, ident, r.ttl, e["t"] - U, e["t"] - goodbyes[2][0]["t"], "mcast" if e["mcast"] else "ucast"),
                                 kind_of_record=ident[0], channel="mcast" if e["mcast"] else "ucast", api=sc["api"])
            res.cls(sc["api"], "shared" if shared else "own-host", queue_cls, "n=%d" % len(svcs), sc["layout"], "q=%d" % min(len(sc["queries"]), 3))
    for q in sc["queries"]:
        res.cls("query", q["kind"], "qu" if q["qu"] else "qm", "legacy" if q["legacy"] else "mdns", "tc" if q["tc"] else "-", off_bucket(q["off"]))


def off_bucket(off: int) -> str:
    if off < -1000:
        return "<-1000"
    if off < -500:
        return "-1000..-500"
    if off < -120:
        return "-500..-120"
    if off < 0:
        return "-120..0"
    if off == 0:
        return "0"
    if off <= 125:
        return "0..125"
    return "125..260"


def classify_queue(sc: Dict[str, Any]) -> str:
    if not sc["queries"]:
        return "none"
    kinds = set()
    for q in sc["queries"]:
        if q["tc"]:
            kinds.add("tc")
        elif sc["gap"] + 1400 + q["off"] < 1000:
            kinds.add("protected")
        else:
            kinds.add("aggregate")
    return "+".join(sorted(kinds))


def run_flap(res: Result, seed: int) -> None:
    """A service unregistered while its own announcements are still going out, and the same instance name registered again at
    once as a different ServiceInfo (other port / TXT): the withdrawn SRV and TXT records - different records from the
    successor's - must not be announced again after their three goodbyes, although an announcement of the first
    registration is still pending and the name is (again) present in the registry."""
    import asyncio
    rng = random.Random(seed)
    res.evaluations += 1
    d = rng.choice([0.0, 50.0, 100.0, 150.0, 200.0, 230.0, 300.0, 440.0, 460.0])      # register ... unregister
    e_ = rng.choice([0.0, 1.0, 10.0, 100.0, 130.0, 200.0, 260.0, 600.0])             # unregister ... register again
    layout = rng.choice(["single", "split"])
    T = "_http._tcp.local."
    old = Svc(T, "flap." + T, "flap-host.local.", 8080, b"\x03a=1", [b"\x0a\x00\x00\x05"], [], 120, 4500)
    new = Svc(T, "flap." + T, "flap-host.local.", 9090, b"\x03a=2", [b"\x0a\x00\x00\x05"], [], 120, 4500)
    desc = {"flap": True, "register_to_unregister_ms": d, "unregister_to_register_ms": e_, "layout": layout}

    def viol(monitor: str, kind: str, detail: str, **sig: Any) -> None:
        res.violation(monitor, kind, detail, dict(sig, api="flap"), {"seed": seed, "flap": True, "scenario": desc})

    out: Dict[str, Any] = {}
    with simnet.Sim(seed & 0xFFFF) as sim:
        async def main():
            host = sim.net.add_host("H", "10.0.0.1", "fe80::1" if layout == "split" else None, layout=layout)
            azc = await sim.start_host(host)
            zc = azc.zeroconf
            await sim.sleep_ms(500)
            info_old = R.make_info(old)
            await zc.async_register_service(info_old, cooperating_responders=True)      # announcements at +0, +225, +450 ms
            await sim.sleep_ms(d)
            out["U"] = sim.now_ms()

            async def again() -> None:
                await sim.sleep_ms(e_)
                t = await zc.async_register_service(R.make_info(new), cooperating_responders=True)
                await t
            fut = asyncio.ensure_future(again())
            task = await zc.async_unregister_service(info_old)
            await task
            await fut
            await sim.sleep_ms(3000)
            await azc.async_close()

        try:
            sim.run(main())
        except Exception as e:
            viol("c08.goodbye_complete", "exception", "exception during flap scenario: %r\n%s" % (e, tb()), exc_type=type(e).__name__)
            return
        if sim.net.escapes:
            viol("c08.goodbye_complete", "loop_exception", repr(sim.net.escapes[0])[:800])
        U = out["U"]
        sender_fds = sorted({e["fd"] for e in sim.net.trace if e["mcast"]})
        for fd in sender_fds:
            res.mon("c08.goodbye_complete")
            entries = [e for e in sim.net.trace if e["fd"] == fd and e["mcast"] and e["t"] >= U - 1e-6]
            byes = []
            for e in entries:
                m = wire.parse(e["data"], strict=True)
                zero = {R.ident_of_wire(r) for r in m.answers + m.additionals if r.ttl == 0}
                if old.srv() in zero or old.txt() in zero:
                    byes.append(e)
                    if {old.ptr(), old.srv(), old.txt()} - zero:
                        viol("c08.goodbye_complete", "goodbye_incomplete", "flap: goodbye lacks %r" % (sorted({old.ptr(), old.srv(), old.txt()} - zero, key=repr)[:2],))
                if len(byes) == 3:
                    break
            if len(byes) != 3:
                viol("c08.goodbye_complete", "goodbye_count", "flap: %d goodbyes for the withdrawn registration (expected 3)" % len(byes), count=len(byes))
                continue
            res.mon("c08.no_resurrection")
            for e in entries:
                if e["i"] <= byes[2]["i"]:
                    continue
                m = wire.parse(e["data"], strict=True)
                for r in m.answers + m.additionals:
                    ident = R.ident_of_wire(r)
                    if r.ttl > 0 and ident in (old.srv(), old.txt()):
                        viol("c08.no_resurrection", "record_sent_after_goodbye", "flap (unregister %.0f ms after register, re-register %.0f ms later): withdrawn %r sent "
                             "with ttl %d %.0f ms after its third goodbye" % (d, e_, ident, r.ttl, e["t"] - byes[2]["t"]), kind_of_record=ident[0], channel="mcast")
        res.cls("flap", "d=%d" % d, "e=%d" % e_, layout)


def run_sequence(res: Result, seed: int) -> None:
    """Two services sharing a host name are withdrawn one after the other (or one service is updated to another address and
    then withdrawn) while an answer to a query for the host's addresses - whose *additional* section carries records of the
    other service / the NSEC record - is still waiting in the aggregation or the protected queue.  After the goodbyes of the
    last user of the host name nothing of what was withdrawn may leave the host again, in whatever section."""
    rng = random.Random(seed)
    res.evaluations += 1
    layout = rng.choice(["single", "split"])
    T = "_http._tcp.local."
    mode = rng.choice(["two-unregisters", "two-unregisters", "update-then-unregister"])
    a = Svc(T, "sa." + T, "seq-host.local.", 80, b"\x03a=1", [b"\x0a\x00\x00\x01"], [b"\xfe\x80" + b"\0" * 13 + b"\x01"] if mode == "two-unregisters" else [], 120, 4500)
    b = Svc(T, "sb." + T, "seq-host.local.", 81, b"\x03b=1", [b"\x0a\x00\x00\x01"], [], 120, 4500)
    a2 = Svc(T, "sa." + T, "seq-host.local.", 80, b"\x03a=1", [b"\x0a\x00\x00\x02"], [], 120, 4500)
    gap = rng.choice([300.0, 700.0, 1500.0, 3000.0])
    delta = rng.choice([5.0, 50.0, 119.0, 300.0, 700.0])
    between = rng.choice([0.0, 10.0, 260.0, 600.0])
    qkind = rng.choice(["aaaa", "a", "any-host", "ptr"])
    desc = {"sequence": True, "mode": mode, "gap": gap, "delta": delta, "between": between, "question": qkind, "layout": layout}

    def viol(monitor: str, kind: str, detail: str, **sig: Any) -> None:
        res.violation(monitor, kind, detail, dict(sig, api="sequence"), {"seed": seed, "sequence": True, "scenario": desc})

    out: Dict[str, Any] = {}
    with simnet.Sim(seed & 0xFFFF) as sim:
        async def main():
            host = sim.net.add_host("H", "10.0.0.1", "fe80::1" if layout == "split" else None, layout=layout)
            azc = await sim.start_host(host)
            zc = azc.zeroconf
            ia, ib = R.make_info(a), R.make_info(b)
            tasks = [await zc.async_register_service(ia, cooperating_responders=True)]
            if mode == "two-unregisters":
                tasks.append(await zc.async_register_service(ib, cooperating_responders=True))
            for t in tasks:
                await t
            await sim.sleep_ms(gap)
            q = {"aaaa": [("seq-host.local.", 28, False)], "a": [("seq-host.local.", 1, False)], "any-host": [("seq-host.local.", 255, False)],
                 "ptr": [(T, 12, False)]}[qkind]
            sim.net.inject_now(host, R.build_query(q, id_=9), ("10.0.0.50", 5353))
            await sim.sleep_ms(delta)
            out["U"] = sim.now_ms()
            if mode == "two-unregisters":
                t = await zc.async_unregister_service(ia)
                await t
                await sim.sleep_ms(between)
                t = await zc.async_unregister_service(ib)
                await t
            else:
                ia2 = R.make_info(a2)
                t = await zc.async_update_service(ia2)
                await t
                await sim.sleep_ms(between)
                t = await zc.async_unregister_service(ia2)
                await t
            out["W"] = sim.now_ms()          # last withdrawal complete (third goodbye sent)
            await sim.sleep_ms(3000)
            await azc.async_close()
        try:
            sim.run(main())
        except Exception as e:
            viol("c08.goodbye_complete", "exception", "exception during sequence scenario: %r\n%s" % (e, tb()), exc_type=type(e).__name__)
            return
        if sim.net.escapes:
            viol("c08.goodbye_complete", "loop_exception", repr(sim.net.escapes[0])[:800])
        res.mon("c08.no_resurrection")
        res.mon("c08.no_resurrection.sequence")
        last = a2 if mode == "update-then-unregister" else b
        # "those records": PTR/SRV/TXT of every withdrawn service, address and NSEC records only of the one that was the last
        # user of the host name when it was withdrawn (the first one's stay un-withdrawn by the rule for shared host names)
        withdrawn: Set[Tuple] = set()
        for s_ in ([a, b] if mode == "two-unregisters" else [a2]):
            withdrawn |= {s_.ptr(), s_.srv(), s_.txt()}
        withdrawn |= last.addr_and_nsec()
        if mode == "update-then-unregister":
            withdrawn |= {a.ptr(), a.srv(), a.txt()}            # identical to a2's; the replaced address is C03's subject
        for e in sim.net.trace:
            if e["t"] <= out["W"] + 1e-6 or e["host"] != "H":
                continue
            m = wire.parse(e["data"], strict=True)
            if not m.is_response:
                continue
            for r in m.answers + m.additionals:
                ident = R.ident_of_wire(r)
                if r.ttl > 0 and ident in withdrawn:
                    viol("c08.no_resurrection", "record_sent_after_goodbye", "%s: %r sent with ttl %d %.0f ms after the last goodbye, as %s of a reply to the %s query" % (
                        mode, ident, r.ttl, e["t"] - out["W"], "an answer" if r in m.answers else "an additional", qkind),
                        kind_of_record=ident[0], section="answer" if r in m.answers else "additional")
                    break
        res.cls("sequence", mode, qkind, "gap=%d" % gap, "delta=%d" % delta, "between=%d" % between, layout)


def run_shard(spec):
    res = Result()
    rng = rng_for("c08", spec["seed"], spec["shard"])
    for i in range(spec["per"]):
        if i % 8 == 3:
            run_sequence(res, rng.randrange(1 << 30))
        elif i % 8 == 7:
            run_flap(res, rng.randrange(1 << 30))
        else:
            run_scenario(res, rng.randrange(1 << 30))
    return res


def replay(blob):
    res = Result()
    if blob.get("sequence"):
        run_sequence(res, blob["seed"])
    elif blob.get("flap"):
        run_flap(res, blob["seed"])
    else:
        run_scenario(res, blob["seed"])
    return res
