"""C16 - back-to-back duplicate datagrams change nothing (metamorphic: reference run vs duplicated run)."""
from __future__ import annotations

import random
from typing import Any, Dict, List, Optional, Tuple

from .. import respond as R
from .. import simnet, wire
from ..common import Result, rng_for, tb
from ..models import Svc

PROPERTY_ID = "C16"
LEVEL = "exploration"
RULE = ("Each generated traffic history (10..40 events over ~12 s: QM/QU/mixed/probe/legacy-source/TC/TC+QU queries for the host's "
        "services, and responses with new/refreshed/goodbye/flush records for a browsed type; host with 1..2 services, a browser "
        "and a record-update listener; both socket layouts) is executed up to four times in virtual time with the same library RNG "
        "seed: as is; with every datagram WITHOUT a QU question delivered a second time immediately on the same socket; "
        "additionally with truncated (TC) queries containing a QU question duplicated; and with EVERY datagram duplicated "
        "(injected ones and the host's own looped-back multicasts) - the RNG being switched to a side stream while a copy is "
        "processed. Oracle: the sequence of (time, destination, bytes) transmitted and the sequences of record-update and browser "
        "callbacks (time, arguments) must be identical, except that a unicast reply emitted while the copy of a datagram with "
        "a QU question is processed may appear. Only the first divergence of a history is reported, classified (extra "
        "multicast / extra unicast / missing / shifted / callback) and attributed to the first run that shows it "
        "(non_qu_duplicate / tc_qu_duplicate / qu_copy_processed). Distinct = (datagram kind, QU?, outcome) classes.")
ASSUMPTIONS = ["the duplicate is delivered in the same loop callback as the original (both sit in the socket buffer)"]

T1 = "_http._tcp.local."
T2 = "_ipp._tcp.local."


def floors(tier):
    q = tier == "quick"
    return {"c16.trace_equal": 5000 if q else 600000, "c16.callbacks_equal": 3000 if q else 400000}


def plan(tier, seed):
    if tier == "quick":
        n, per = 16, 300
    else:
        n, per = 64, 9000
    return [{"seed": seed, "shard": i, "per": per, "tier": tier} for i in range(n)]


def gen_history(rng: random.Random) -> Dict[str, Any]:
    layout = rng.choice(["single", "split"])
    nsvc = rng.choice([1, 2])
    svcs = []
    for i in range(nsvc):
        s = R.gen_service(rng, type_=T1, min_ttl=10)
        s.name = "own%d.%s" % (i, T1)
        s.server = "h-own%d.local." % i
        svcs.append(s)
    events = []
    t = rng.choice([0.0, 600.0, 1500.0])
    for i in range(rng.choice([10, 20, 40])):
        s = rng.choice(svcs)
        kind = rng.choice(["qm", "qm", "qu", "mixed", "probe", "legacy", "legacy-qu", "tc", "tc-qu", "resp-new", "resp-refresh", "resp-goodbye", "resp-flush", "qm-known",
                           "resp-echo-qu"])
        src = ("10.0.0.%d" % rng.choice([60, 61]), 5353)
        if kind in ("qm", "qu", "mixed", "legacy", "legacy-qu", "tc", "tc-qu", "qm-known"):
            qs = [(rng.choice([s.type, s.name, s.server]), rng.choice([12, 33, 16, 1, 255]),
                   {"qm": False, "qu": True, "mixed": rng.random() < 0.5, "legacy": False, "legacy-qu": True, "tc": False, "tc-qu": True, "qm-known": False}[kind])
                  for _ in range(rng.choice([1, 1, 2, 3]))]
            if kind == "mixed":
                qs[0] = (qs[0][0], qs[0][1], True)
            # (tc-qu: the first query of a browser with many known answers - truncated and QU at once)
            known = [(s.ptr(), s.other_ttl)] if kind == "qm-known" or (kind == "tc-qu" and rng.random() < 0.5) else []
            data = R.build_query(qs, known, id_=rng.randrange(65536), tc=kind.startswith("tc"))
            if kind.startswith("legacy"):
                src = (src[0], rng.randrange(2000, 60000))
            has_qu = any(q[2] for q in qs)
        elif kind == "probe":
            data = R.build_query([(s.type, 12, rng.random() < 0.7)], id_=0, authorities=[(("PTR", s.type, ("other." + s.type,)), 120)])
            has_qu = bool(wire.parse(data).questions[0].cls & 0x8000)
        else:
            inst = "peer%d.%s" % (rng.randrange(3), T2)
            ttl = {"resp-new": 4500, "resp-refresh": 4500, "resp-goodbye": 0, "resp-flush": 120, "resp-echo-qu": 4500}[kind]
            recs = [(("PTR", T2, (inst,)), ttl if kind != "resp-flush" else 4500, False)]
            if kind in ("resp-new", "resp-flush") or rng.random() < 0.3:
                recs += [(("SRV", inst, (0, 0, rng.choice([80, 81]), "ph.local.")), 120, True), (("A", "ph.local.", (bytes([10, 0, 0, rng.choice([90, 91])]),)), 120, True)]
            data = R.build_response(recs, id_=rng.randrange(65536))
            has_qu = False
            if kind == "resp-echo-qu":
                # a response that echoes a question with the QU bit (the form of a legacy unicast reply): still a response - the
                # exception the property grants is for *queries* containing a QU question
                data = wire.build(id_=rng.randrange(65536), flags=0x8400, questions=[(T2, 12, 0x8001)],
                                  answers=[(T2, 12, 1, 4500, inst), (inst, 33, 0x8001, 120, (0, 0, 82, "ph.local."))])
        if kind.startswith("resp-") and rng.random() < 0.25:
            # header bits that mean nothing in a response but are legal to receive (TC, missing AA, RA, an rcode): a response is a
            # response, its copy changes nothing
            data = data[:2] + rng.choice([0x8600, 0x8000, 0x8480, 0x8403, 0x8601]).to_bytes(2, "big") + data[4:]
        events.append({"t": t, "kind": kind, "data": data, "src": src, "has_qu": has_qu})
        t += rng.choice([0, 1, 30, 200, 600, 999, 1000, 1001, 1500])
    return {"layout": layout, "svcs": svcs, "events": events, "self_delay": rng.choice([0.0, 0.0, 1.0, 30.0])}


def execute(h: Dict[str, Any], lib_seed: int, duplicate: str) -> Dict[str, Any]:
    """duplicate: 'none' | 'non-qu' (every datagram without a QU question) | 'all'"""
    from zeroconf import RecordUpdateListener, ServiceListener
    from zeroconf.asyncio import AsyncServiceBrowser
    callbacks: List[Tuple] = []
    policy = simnet.Policy(random.Random(5), self_delay_ms=h["self_delay"])
    with simnet.Sim(lib_seed, policy=policy) as sim:
        class BL(ServiceListener):
            def add_service(self, zc: Any, t: str, n: str) -> None:
                callbacks.append((round(sim.now_ms(), 6), "add", n))

            def remove_service(self, zc: Any, t: str, n: str) -> None:
                callbacks.append((round(sim.now_ms(), 6), "remove", n))

            def update_service(self, zc: Any, t: str, n: str) -> None:
                callbacks.append((round(sim.now_ms(), 6), "update", n))

        class RL(RecordUpdateListener):
            def async_update_records(self, zc: Any, now: float, records: List[Any]) -> None:
                callbacks.append((round(sim.now_ms(), 6), "records", tuple((R.ident_of_lib(r.new), r.new.ttl, r.old is not None) for r in records)))

            def async_update_records_complete(self) -> None:
                callbacks.append((round(sim.now_ms(), 6), "complete"))

        side_state: Dict[str, Any] = {}

        def dup_hook(phase: str) -> None:
            if phase == "begin":
                side_state["saved"] = random.getstate()
                random.seed(987654321)
            else:
                random.setstate(side_state["saved"])

        out: Dict[str, Any] = {}

        async def main():
            host = sim.net.add_host("H", "10.0.0.1", "fe80::1" if h["layout"] == "split" else None, layout=h["layout"])
            azc = await sim.start_host(host)
            zc = azc.zeroconf
            for s in h["svcs"]:
                t = await zc.async_register_service(R.make_info(s), cooperating_responders=True)
                await t
            zc.async_add_listener(RL(), None)
            browser = AsyncServiceBrowser(zc, T2, listener=BL())
            await sim.sleep_ms(200)
            out["T0"] = sim.now_ms()
            out["mark"] = len(sim.net.trace)
            sim.net.dup_hook = dup_hook
            sim.net.duplicate_all = duplicate != "none"
            sim.net.duplicate_filter = {"non-qu": (lambda d: not has_qu(d)), "non-qu+tc": (lambda d: (not has_qu(d)) or is_tc_query(d))}.get(duplicate)
            for ev in h["events"]:
                sim.net.inject(host, ev["data"], ev["src"], delay_ms=ev["t"], multicast=True)
            await sim.sleep_ms(h["events"][-1]["t"] + 3000)
            sim.net.duplicate_all = False
            out["end"] = len(sim.net.trace)
            await browser.async_cancel()
            await azc.async_close()

        sim.run(main())
        tx = []
        for e in sim.net.trace[out["mark"]:out["end"]]:
            tx.append({"t": round(e["t"] - out["T0"], 6), "dst": tuple(e["dst"]), "data": e["data"], "mcast": e["mcast"], "fd": (e["sock"], e["sock_ip"]), "ctx": e["ctx"]})
        T0 = out["T0"]
        cbs = [(round(c[0] - T0, 6),) + tuple(c[1:]) for c in callbacks if c[0] >= T0 - 1e-6]
        # listeners are kept in a set: the order in which *different* listeners are called is not defined, so compare per listener
        return {"tx": tx, "callbacks": {"browser": [c for c in cbs if c[1] in ("add", "remove", "update")],
                                        "record_listener": [c for c in cbs if c[1] in ("records", "complete")]},
                "escapes": list(sim.net.escapes)}


def is_tc_query(data: bytes) -> bool:
    return len(data) >= 12 and not (data[2] & 0x80) and bool(data[2] & 0x02)


def has_qu(data: bytes) -> bool:
    """a *query* containing a QU question (the one case for which the property allows a second unicast answer)"""
    m, _ = wire.try_parse(data, strict=False)
    return bool(m and not m.is_response and any(q.cls & 0x8000 for q in m.questions))


def witness_history() -> Dict[str, Any]:
    """Stored witness of known finding F8: one QU PTR query, 6 s after the last announcement (so the PTR has not been
    multicast within a quarter of... the one-second window and is answered by multicast at once), delivered twice."""
    s = Svc(T1, "own0." + T1, "h-own0.local.", 80, b"", [b"\x0a\x00\x00\x01"], [], 8, 8)
    data = R.build_query([(T1, 12, True)], id_=0x1234)
    return {"layout": "single", "svcs": [s], "self_delay": 0.0,
            "events": [{"t": 6000.0, "kind": "qu", "data": data, "src": ("10.0.0.60", 5353), "has_qu": True}]}


def run_history(res: Result, seed: int, h: Optional[Dict[str, Any]] = None) -> None:
    rng = random.Random(seed)
    h = h or gen_history(rng)
    res.evaluations += 1
    desc = {"layout": h["layout"], "svcs": [s.brief() for s in h["svcs"]], "self_delay": h["self_delay"],
            "events": [{"t": e["t"], "kind": e["kind"], "src": e["src"], "has_qu": e["has_qu"], "hex": e["data"].hex()[:80]} for e in h["events"]]}

    def viol(monitor: str, kind: str, detail: str, **sig: Any) -> None:
        res.violation(monitor, kind, detail, sig, {"seed": seed, "history": desc})

    try:
        ref = execute(h, seed & 0xFFFF, "none")
        dup_nonqu = execute(h, seed & 0xFFFF, "non-qu")
        dup_tc = execute(h, seed & 0xFFFF, "non-qu+tc") if any(e["has_qu"] and is_tc_query(e["data"]) for e in h["events"]) else dup_nonqu
        dup_all = execute(h, seed & 0xFFFF, "all")
    except Exception as e:
        viol("c16.trace_equal", "exception", "exception: %r\n%s" % (e, tb()), exc_type=type(e).__name__)
        return
    for run, name in ((ref, "reference"), (dup_nonqu, "duplicated(non-QU)"), (dup_tc, "duplicated(non-QU and truncated QU)"), (dup_all, "duplicated(all)")):
        if run["escapes"]:
            viol("c16.trace_equal", "loop_exception", ("%s run: %r" % (name, run["escapes"][0]))[:600])
            return
    diverged = False
    allowed_extra_unicast = 0
    # run B (no QU copies) must be *identical*; run C may add unicast replies while a QU copy is processed. A divergence that
    # appears only in run C is caused by the processing of the copy of a datagram with a QU question (cause=qu_copy_processed).
    # run B' additionally duplicates truncated queries that contain a QU question: the listener lets the copy through (QU) but
    # the deferral code recognises it as the packet it already holds, so B' must be identical too (cause=tc_qu_duplicate).
    for dup, cause in ((dup_nonqu, "non_qu_duplicate"), (dup_tc, "tc_qu_duplicate"), (dup_all, "qu_copy_processed")):
        if dup is dup_nonqu and cause == "tc_qu_duplicate":
            continue
        res.mon("c16.trace_equal")
        a, b = ref["tx"], dup["tx"]
        i = j = 0
        while i < len(a) or j < len(b):
            x = a[i] if i < len(a) else None
            y = b[j] if j < len(b) else None
            if x is not None and y is not None and (x["t"], x["dst"], x["data"], x["fd"]) == (y["t"], y["dst"], y["data"], y["fd"]):
                i += 1
                j += 1
                continue
            if cause in ("qu_copy_processed", "tc_qu_duplicate") and y is not None and not y["mcast"] and y["ctx"] and y["ctx"]["copy"] and has_qu(y["ctx"]["data"]):
                allowed_extra_unicast += 1
                j += 1
                continue
            diverged = True
            during_copy = bool(y is not None and y["ctx"] and y["ctx"]["copy"])
            if during_copy and (x is None or y["t"] <= x["t"] + 1e-9):
                kind = "extra_multicast" if y["mcast"] else "extra_unicast"
                m, _ = wire.try_parse(y["data"], strict=False)
                detail = "duplicated run transmits an extra %s datagram at +%.1f ms while processing the copy of a %d-byte datagram (QU question: %s): answers %r" % (
                    "multicast" if y["mcast"] else "unicast", y["t"], len(y["ctx"]["data"]), has_qu(y["ctx"]["data"]),
                    [R.ident_of_wire(r)[:2] for r in (m.answers if m else [])][:3])
            elif x is not None and y is not None and x["data"] == y["data"] and x["dst"] == y["dst"] and abs(x["t"] - y["t"]) > 1e-9:
                kind = "send_time_shifted"
                detail = "the datagram the reference run sends at +%.1f ms is sent at +%.1f ms in the duplicated run" % (x["t"], y["t"])
            elif x is not None and (y is None or x["t"] < y["t"] - 1e-9):
                # the same bytes later?
                later = [z for z in b[j:] if z["data"] == x["data"] and z["dst"] == x["dst"]]
                kind = "send_time_shifted" if later else "missing_transmission"
                detail = "reference run sends a datagram at +%.1f ms; the duplicated run %s" % (x["t"], ("sends it at +%.1f ms" % later[0]["t"]) if later else "never sends it")
            elif y is not None and (x is None or y["t"] < x["t"] - 1e-9):
                kind = "extra_later_transmission"
                detail = "duplicated run sends an additional datagram at +%.1f ms (%s) outside the processing of a copy" % (y["t"], "multicast" if y["mcast"] else "unicast")
            else:
                kind = "different_content"
                detail = "at +%.1f ms the two runs send different datagrams (%d vs %d bytes, dst %r vs %r)" % (x["t"], len(x["data"]), len(y["data"]), x["dst"], y["dst"])
            viol("c16.trace_equal", kind, "[%s] %s" % (cause, detail), cause=cause)
            break
        if diverged:
            break
        res.mon("c16.callbacks_equal")
        for who in ("browser", "record_listener"):
            ca, cb = ref["callbacks"][who], dup["callbacks"][who]
            if ca != cb:
                k = 0
                while k < min(len(ca), len(cb)) and ca[k] == cb[k]:
                    k += 1
                diverged = True
                viol("c16.callbacks_equal", "callbacks_differ", "[%s] %s callback %d differs: reference %r, duplicated %r (%d vs %d callbacks)" % (
                    cause, who, k, ca[k] if k < len(ca) else None, cb[k] if k < len(cb) else None, len(ca), len(cb)), cause=cause, who=who)
                break
        if diverged:
            break
    a = ref["tx"]
    b = dup_all["tx"]
    kinds = sorted({e["kind"] for e in h["events"]})
    res.cls("history", h["layout"], "n=%d" % len(h["events"]), "self=%g" % h["self_delay"], "diverged" if diverged else "equal", "extra_ucast=%d" % min(allowed_extra_unicast, 2))
    for k in kinds:
        res.cls("event", k)
    res.extra["transmissions_compared"] = res.extra.get("transmissions_compared", 0) + len(a)
    res.extra["callbacks_compared"] = res.extra.get("callbacks_compared", 0) + sum(len(v) for v in ref["callbacks"].values())
    if res.evaluations % 19 == 1:
        res.sample({"layout": h["layout"], "events": desc["events"][:5], "ref_tx": len(a), "dup_tx": len(b), "callbacks": sum(len(v) for v in ref["callbacks"].values())})


def run_shard(spec):
    res = Result()
    rng = rng_for("c16", spec["seed"], spec["shard"])
    for _ in range(spec["per"]):
        run_history(res, rng.randrange(1 << 30))
    return res


def replay(blob):
    res = Result()
    run_history(res, blob["seed"])
    return res


def witnesses(spec):
    res = Result()
    run_history(res, 424242, witness_history())
    return res
