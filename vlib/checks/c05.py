from . import _cache

PROPERTY_ID = "C05"
LEVEL = "exploration"
RULE = ("Histories of response datagrams (built by the independent encoder, parsed by the real DNSIncoming, fed to the real "
        "RecordManager/DNSCache) and clock advances (with the real engine purge run at each 10 s boundary) over a vocabulary of "
        "PTR/SRV/TXT/A/AAAA records in several spellings, TTL in {0,1,2,120,1124,1125,4500}, flush bit on/off, the same record "
        "repeated inside a datagram with equal/different TTLs, clock steps around 1 s, TTL expiry and 10 s. After EVERY step all "
        "lookup paths (names, entries_with_name, async_entries_with_name keys+values, get_all/async_all/get_by_details, get, "
        "async_get_unique, entries_with_server sync+async, each in 2+ spellings) are compared with each other and with a dict "
        "model of RFC 6762 s.10; purges must report exactly the model's expired set; structure invariant (key is value, no empty "
        "bucket, SRV index mirrors cache). Thorough adds all depth-3 sequences over a reduced step alphabet. Distinct = "
        "(record kind, relation to cache, flush, ttl bucket, age bucket) classes.")
ASSUMPTIONS = ["the same record with TTL 0 and TTL>0 inside one datagram is not generated (statement contradicts itself there)",
               "for a record repeated in one datagram with different TTLs the model keeps the last one"]
EXHAUSTIVE = {"quick": False, "thorough": False}


def floors(tier):
    q = tier == "quick"
    return {"c05.model": 40000 if q else 4000000, "c05.paths_agree": 40000 if q else 4000000, "c05.structure": 40000 if q else 4000000,
            "c05.purge": 3000 if q else 300000}


def plan(tier, seed):
    return _cache.plan("C05", tier, seed)


def run_shard(spec):
    return _cache.run_shard(spec)


def replay(blob):
    return _cache.replay("C05", blob)


# thorough tier only: the repository's own test suite, run under the invariant monitors of vlib/suite_monitors.py
from . import _suite  # noqa: E402
_suite.attach(globals(), "c05.", "suite.c05.structure", 700)
