"""C02 - decoder total, bounded, faithful."""
from __future__ import annotations

import itertools
import random
import struct
import sys
from typing import Any, Dict, List, Optional, Tuple

from .. import codec_harness as H
from .. import gen, wire
from ..common import Result, rng_for, tb

PROPERTY_ID = "C02"
LEVEL = "exploration"
RULE = ("Byte strings of length 0..8966 from five generators: random bytes behind a plausible header; mutations (bit flip, "
        "truncate, insert, count/rdlength corruption) of valid messages produced by the real encoder and by the independent "
        "encoder in several compression layouts; grammar-generated compression graphs (chains to 4400 hops, cycles, self/forward "
        "references, pointers into rdata/header/end, over-long names first met in skippable rdata or hidden in TXT rdata and "
        "then referenced by bare pointers); exhaustive strings over {00,01,3f,40,c0,0c,0e,ff} appended to a one-question "
        "header; unmodified valid messages (drive the faithfulness monitor). Monitors: no exception of any type; Python call "
        "count and stack depth under a fixed budget (sys.setprofile); decoded names <=253 chars and typed fields; equality with "
        "the independent strict parser whenever it accepts. Distinct = (generator, outcome, pointer-shape) tuples.")
ASSUMPTIONS = ["work is measured in Python-level function calls and stack depth, not wall time",
               "vlib/wire.py strict parser defines 'a strict RFC 1035 parser accepts'"]

MAX = 8966
# Budget (fixed, independent of pointer arrangement): calibrated on the unchanged tree: valid traffic costs < 1.2
# calls/byte; the label-less pointer-chain fan-in pattern is the worst case reached (~128 hops x ~690 names). 10x margin over
# valid traffic, plus a constant for the bounded fan-in.
CALLS_A, CALLS_B = 120_000, 12
DEPTH_MAX = 400
HARD_ABORT = 3_000_000


class BudgetExceeded(BaseException):
    pass


class Meter:
    __slots__ = ("calls", "depth", "maxdepth", "limit")

    def __init__(self, limit: int):
        self.calls = 0
        self.depth = 0
        self.maxdepth = 0
        self.limit = limit

    def __call__(self, frame: Any, event: str, arg: Any) -> None:
        if event == "call":
            self.calls += 1
            self.depth += 1
            if self.depth > self.maxdepth:
                self.maxdepth = self.depth
            if self.calls > self.limit:
                raise BudgetExceeded()
        elif event == "return":
            self.depth -= 1


def floors(tier):
    n = 60000 if tier == "quick" else 5_000_000
    return {"c02.total": n, "c02.bounded": n, "c02.wellformed": n // 10, "c02.faithful": n // 20}


EXHAUSTIVE = {"quick": False, "thorough": False}
ALPHABET = [0x00, 0x01, 0x3F, 0x40, 0xC0, 0x0C, 0x0E, 0xFF]


def plan(tier, seed):
    if tier == "quick":
        n, per, exh = 16, 6000, 4
    else:
        n, per, exh = 64, 150000, 6
    return [{"seed": seed, "shard": i, "n_shards": n, "per": per, "exh": exh, "tier": tier} for i in range(n)]


# ---------------------------------------------------------------------------------------


def lib_decode(data: bytes) -> Tuple[Optional[Any], Optional[List[Any]], Optional[BaseException], Meter]:
    from zeroconf._protocol.incoming import DNSIncoming
    meter = Meter(HARD_ABORT)
    msg = None
    recs = None
    err: Optional[BaseException] = None
    sys.setprofile(meter)
    try:
        msg = DNSIncoming(data, ("192.0.2.1", 5353), None, 1000.0)
        recs = msg.answers()
    except BaseException as e:  # noqa - the property is about *any* exception
        err = e
    finally:
        sys.setprofile(None)
    return msg, recs, err, meter


def check_one(data: bytes, res: Result, genname: str, shape: str = "-") -> None:
    import zeroconf._dns as d
    res.evaluations += 1
    replay = {"data": data.hex(), "gen": genname}
    msg, recs, err, meter = lib_decode(data)
    res.mon("c02.total")
    if err is not None:
        if isinstance(err, BudgetExceeded):
            res.violation("c02.bounded", "hard_abort", "decoder exceeded %d Python calls on %d bytes" % (HARD_ABORT, len(data)),
                          {"gen": genname}, replay)
        else:
            res.violation("c02.total", "exception_escaped", "%s escaped DNSIncoming/answers() on %d bytes (%s)" % (
                type(err).__name__, len(data), genname), {"exc_type": type(err).__name__}, replay)
        res.cls(genname, "raised", shape)
        return
    res.mon("c02.bounded")
    budget = CALLS_A + CALLS_B * len(data)
    if meter.calls > budget:
        res.violation("c02.bounded", "call_budget", "%d calls for %d bytes (budget %d)" % (meter.calls, len(data), budget),
                      {"gen": genname}, replay)
    if meter.maxdepth > DEPTH_MAX:
        res.violation("c02.bounded", "stack_depth", "stack depth %d for %d bytes (limit %d)" % (meter.maxdepth, len(data), DEPTH_MAX),
                      {"gen": genname}, replay)
    ex = res.extra
    if meter.calls > ex.get("max_calls_seen", 0):
        ex["max_calls_seen"] = meter.calls
        ex["max_calls_len"] = len(data)
    if meter.maxdepth > ex.get("max_depth_seen", 0):
        ex["max_depth_seen"] = meter.maxdepth
    if len(data) > 64:
        ratio = meter.calls / len(data)
        if ratio > ex.get("max_calls_per_byte", 0):
            ex["max_calls_per_byte"] = round(ratio, 3)

    valid = bool(msg.valid)
    outcome = "invalid"
    if valid:
        res.mon("c02.wellformed")
        nrec = len(recs)
        total = msg.num_answers + msg.num_authorities + msg.num_additionals
        outcome = "valid-empty" if (nrec == 0 and not msg.questions) else ("valid-full" if nrec == total else "valid-partial")
        for q in msg.questions:
            if not isinstance(q.name, str) or len(q.name) > 253:
                res.violation("c02.wellformed", "question_name_too_long", "question name of %d chars" % len(q.name), {}, replay)
        for r in recs:
            problem, is_name = wellformed_problem(d, r)
            if problem and is_name:
                res.violation("c02.wellformed", "name_too_long", problem, {}, replay)
            elif problem:
                # the statement only bounds names; odd field shapes are reported, not judged
                res.obs("odd_record_field: " + problem.split(" with ")[0])
    # faithful
    wm, why = wire.try_parse(data, strict=True)
    if wm is not None:
        supported_only = all(r.type in wire.SUPPORTED for r in wm.records)
        res.mon("c02.faithful")
        if not valid:
            res.violation("c02.faithful", "strict_valid_but_library_invalid", "strict parser accepts %d bytes, library marks invalid" % len(data),
                          {"gen": genname}, replay)
        else:
            lq = [(q.name, q.type, q.class_, q.unique) for q in msg.questions]
            wq = [q.tup() for q in wm.questions]
            if lq != wq:
                res.violation("c02.faithful", "questions_differ", H.first_diff(wq, lq), {"gen": genname}, replay)
            wl = [H.wire_record_tuple(r) for r in wm.records if r.type in wire.SUPPORTED]
            ll = [H.lib_record_tuple(r) for r in recs]
            if ll != wl:
                if supported_only:
                    res.violation("c02.faithful", "records_differ", H.first_diff(wl, ll), {"gen": genname}, replay)
                else:
                    res.obs("records_differ_with_unsupported_types_present")
        outcome += "+strict"
    res.cls(genname, outcome, shape)
    if res.evaluations % 997 == 3:
        res.sample({"gen": genname, "len": len(data), "head_hex": data[:48].hex(), "outcome": outcome, "calls": meter.calls,
                    "depth": meter.maxdepth})


def wellformed_problem(d: Any, r: Any) -> Tuple[str, bool]:
    p = _wellformed_problem(d, r)
    return p, ("chars" in p)


def _wellformed_problem(d: Any, r: Any) -> str:
    if not isinstance(r.name, str) or len(r.name) > 253:
        return "record name of %d chars" % len(r.name)
    if not isinstance(r.ttl, int) or not (0 <= r.ttl < 2 ** 32):
        return "ttl %r" % (r.ttl,)
    if isinstance(r, d.DNSAddress):
        want = 4 if r.type == 1 else 16
        if not isinstance(r.address, bytes) or len(r.address) != want:
            return "address record type %d with %d-byte address" % (r.type, len(r.address))
    elif isinstance(r, d.DNSPointer):
        if not isinstance(r.alias, str) or len(r.alias) > 253:
            return "pointer alias of %d chars" % len(r.alias)
    elif isinstance(r, d.DNSService):
        if not isinstance(r.server, str) or len(r.server) > 253:
            return "srv target of %d chars" % len(r.server)
        if not all(isinstance(x, int) and 0 <= x < 65536 for x in (r.priority, r.weight, r.port)):
            return "srv numeric fields out of range"
    elif isinstance(r, d.DNSText):
        if not isinstance(r.text, bytes):
            return "txt not bytes"
    elif isinstance(r, d.DNSHinfo):
        if not isinstance(r.cpu, str) or not isinstance(r.os, str):
            return "hinfo fields not str"
    elif isinstance(r, d.DNSNsec):
        if not isinstance(r.next_name, str) or len(r.next_name) > 253:
            return "nsec next name of %d chars" % len(r.next_name)
        if not all(isinstance(t, int) and 0 <= t < 65536 for t in r.rdtypes):
            return "nsec rdtypes out of range"
    else:
        return "record of unsupported class %s" % type(r).__name__
    return ""


# ---------------------------------------------------------------------------------------
# generators


def header(id_=0, flags=0, qd=0, an=0, ns=0, ar=0) -> bytes:
    return struct.pack(">HHHHHH", id_, flags, qd, an, ns, ar)


def gen_random(rng: random.Random) -> bytes:
    n = rng.choice([0, 1, 5, 11, 12, 13, 20, 40, 100, 400, 1500]) if rng.random() < 0.8 else rng.randrange(0, 3000)
    if n < 12 or rng.random() < 0.2:
        return gen.rand_bytes(rng, n)
    counts = [rng.choice([0, 0, 1, 1, 2, 5, 255, 65535]) for _ in range(4)]
    body = bytearray(gen.rand_bytes(rng, n - 12))
    # sprinkle structure bytes
    for _ in range(rng.randrange(0, 8)):
        if body:
            body[rng.randrange(len(body))] = rng.choice([0, 0xC0, 0x0C, 1, 2, 3, 0x3F, 0x40])
    return header(rng.randrange(65536), rng.choice([0, 0x8400, 0x0200, rng.randrange(65536)]), *counts) + bytes(body)


def valid_message(rng: random.Random) -> Tuple[bytes, str]:
    """A valid datagram from the real encoder or from the independent encoder."""
    if rng.random() < 0.5:
        from zeroconf._exceptions import NamePartTooLongException
        from zeroconf._protocol.outgoing import DNSOutgoing
        for _ in range(5):
            case = H.gen_random_case(rng)
            out = DNSOutgoing(0 if case.query else 0x8400, case.multicast, case.id)
            try:
                for q in case.questions:
                    out.add_question(H.to_lib(q))
                for s, now, created in case.answers:
                    out.add_answer_at_time(H.to_lib(s, created), now)
                for s in case.authorities:
                    out.add_authorative_answer(H.to_lib(s))
                for s in case.additionals:
                    out.add_additional_answer(H.to_lib(s))
                pk = out.packets()
            except NamePartTooLongException:
                continue
            return rng.choice(pk), "valid-lib"
    pool = gen.NamePool(rng, allow_long_labels=False)
    mode = rng.choice(["none", "full", "random"])
    comp: Any = mode
    if mode == "random":
        r2 = random.Random(rng.random())
        comp = lambda suffix: r2.random() < 0.5  # noqa
    b = wire.Builder(comp)
    if rng.random() < 0.06:
        # names met (and pointed to) beyond offset 256 / 512 / ... / 8192: every bit of a 14-bit pointer gets used. Only the
        # independent encoder can build this - the library's own splits long before
        pad = rng.choice([250, 500, 1010, 2040, 4090, 8180]) + rng.randrange(0, 60)
        b.record(1, pool.get(), 16, 1, 120, gen.txt_of_size(rng, pad))
        for _ in range(rng.choice([2, 3, 6])):
            s = gen.gen_record(rng, pool, rng.choice(["A", "PTR", "SRV", "AAAA"]), size_hint=0)
            b.record(1, s[1], gen.TYPE_OF[s[0]], s[2], s[3], H._wire_rdata(s))
        data = b.finish(0, 0x8400)
        if len(data) <= MAX:
            return data, "valid-wire-high-offsets-%s" % mode
        b = wire.Builder(comp)
    if rng.random() < 0.05:
        # 256 and more entries in one section of one datagram: the high byte of a header count is in use (the library's own
        # encoder never gets there, it splits at 1460 bytes)
        b = wire.Builder("full")
        few = [pool.get() for _ in range(3)]
        sec_big = rng.choice([0, 1, 2, 3])
        n_big = rng.choice([256, 257, 300, 511, 512, 520])
        if sec_big == 0:
            for k in range(n_big):
                b.question(few[k % 3], rng.choice([1, 12, 16, 28, 33, 255]), 1)
        else:
            for k in range(n_big):
                b.record(sec_big, few[k % 3], 1, 1, 120, bytes([10, k >> 8, k & 0xFF, 1]))
        data = b.finish(rng.randrange(65536), 0x8400 if sec_big else 0)
        if len(data) <= MAX:
            return data, "valid-wire-many-entries"
        b = wire.Builder(comp)
    nq = rng.choice([0, 0, 1, 2, 5])
    for _ in range(nq):
        q = gen.gen_question(rng, pool)
        b.question(q[1], q[2], q[3])
    for sec in (1, 2, 3):
        for _ in range(rng.choice([0, 0, 1, 2, 6])):
            s = gen.gen_record(rng, pool, size_hint=rng.choice([0, 3, 40, 300]))
            if s[0] == "TXT" or True:
                b.record(sec, s[1], gen.TYPE_OF[s[0]], s[2], s[3], H._wire_rdata(s))
        if rng.random() < 0.08:
            # an unsupported type with opaque rdata
            b.record(sec, pool.get(), rng.choice([2, 6, 15, 41, 65]), 1, 60, gen.rand_bytes(rng, rng.randrange(0, 20)))
    data = b.finish(rng.randrange(65536), rng.choice([0, 0x8400, 0x0200, 0x8000]))
    if len(data) > MAX:
        return valid_message(rng)
    return data, "valid-wire-" + mode


def mutate(rng: random.Random, data: bytes) -> Tuple[bytes, str]:
    b = bytearray(data)
    how = rng.choice(["bitflip", "bitflip", "truncate", "insert", "counts", "rdlength", "byte", "dup-tail", "ptrify"])
    if not b:
        return bytes(b), how
    if how == "bitflip":
        for _ in range(rng.choice([1, 1, 2, 5])):
            i = rng.randrange(len(b))
            b[i] ^= 1 << rng.randrange(8)
    elif how == "truncate":
        del b[rng.randrange(len(b)):]
    elif how == "insert":
        i = rng.randrange(len(b) + 1)
        b[i:i] = gen.rand_bytes(rng, rng.choice([1, 1, 2, 4, 16]))
    elif how == "counts" and len(b) >= 12:
        f = rng.randrange(4)
        struct.pack_into(">H", b, 4 + 2 * f, rng.choice([0, 1, 2, 3, 255, 65535, struct.unpack_from(">H", b, 4 + 2 * f)[0] + rng.choice([-1, 1])]) & 0xFFFF)
    elif how == "rdlength" and len(b) > 24:
        i = rng.randrange(12, len(b) - 1)
        struct.pack_into(">H", b, i, rng.choice([0, 1, 3, 4, 5, 15, 16, 17, 255, 65535]))
    elif how == "byte":
        b[rng.randrange(len(b))] = rng.choice([0, 0x3F, 0x40, 0x80, 0xC0, 0xFF, 12])
    elif how == "dup-tail":
        b += b[rng.randrange(len(b)):]
    elif how == "ptrify" and len(b) > 14:
        i = rng.randrange(12, len(b) - 1)
        tgt = rng.choice([0, 12, i, i + 1, max(0, i - 2), len(b), len(b) - 1, rng.randrange(len(b))]) & 0x3FFF
        b[i] = 0xC0 | (tgt >> 8)
        b[i + 1] = tgt & 0xFF
    return bytes(b[:MAX]), how


def ptr(off: int) -> bytes:
    return bytes([0xC0 | ((off >> 8) & 0x3F), off & 0xFF])


def gen_compression_graph(rng: random.Random) -> Tuple[bytes, str]:
    """Adversarial pointer arrangements.  Layout: header, then a question or record whose name starts a walk."""
    shape = rng.choice(["chain", "chain", "chain-labels", "cycle", "self", "forward", "into-rdata", "into-header", "to-end",
                        "fan-in", "fan-in-empty", "deep-then-long", "label-bomb", "two-cycles", "chain-fwd", "chain-fwd", "zigzag",
                        "long-then-ref", "long-then-ref"])
    body = bytearray()
    base = 12

    def here() -> int:
        return base + len(body)

    if shape in ("chain", "chain-labels", "deep-then-long"):
        k = rng.choice([1, 2, 10, 100, 126, 127, 128, 129, 130, 500, 900, 1100, 2000, 4400])
        k = min(k, (MAX - 200) // (4 if shape != "chain" else 2))
        as_question = rng.random() < 0.5
        base = 12 + (6 if as_question else 12)  # the entry at offset 12 points forward to the chain head
        term = here()
        if shape == "deep-then-long":
            body += bytes([63]) + b"a" * 63 + bytes([63]) + b"b" * 63 + b"\0"
        else:
            body += b"\x01z\0"
        prev = term
        for i in range(k):
            o = here()
            if shape == "chain-labels":
                body += b"\x01" + bytes([97 + i % 26])
            body += ptr(prev)
            prev = o
        if as_question:
            data = header(qd=1) + ptr(prev) + struct.pack(">HH", 12, 1) + bytes(body)
        else:
            data = header(an=1) + ptr(prev) + struct.pack(">HHIH", 99, 1, 120, 0) + bytes(body)
        return data[:MAX], "%s-%d" % (shape, k)
    if shape in ("chain-fwd", "zigzag"):
        # every hop points FORWARD (chain-fwd) or alternately far forward / back (zigzag): no hop is a backward pointer to a
        # place already visited, so loop detection never triggers - only a bound on the number of hops stops the walk
        k = rng.choice([1, 10, 127, 128, 129, 200, 600, 1100, 1500, 3000, 4400])
        with_labels = rng.random() < 0.3
        hop = 4 if with_labels else 2
        k = min(k, (MAX - 60) // hop)
        as_question = rng.random() < 0.5
        start = 12 + (6 if as_question else 12)
        if shape == "chain-fwd":
            order = list(range(k))
        else:
            lo, hi, order = 0, k - 1, []
            while lo <= hi:
                order.append(lo)
                if lo != hi:
                    order.append(hi)
                lo += 1
                hi -= 1
        # slot j lives at offset start + j*hop; the walk visits slots in `order`
        slots = [b""] * k
        end_off = start + k * hop
        for idx, j in enumerate(order):
            nxt = (start + order[idx + 1] * hop) if idx + 1 < len(order) else end_off
            slots[j] = (b"\x01" + bytes([97 + j % 26]) if with_labels else b"") + ptr(nxt)
        chain = b"".join(slots) + b"\x01z\0"
        first = ptr(start + order[0] * hop)
        if as_question:
            data = header(qd=1) + first + struct.pack(">HH", 12, 1) + chain
        elif rng.random() < 0.5:
            data = header(an=1) + first + struct.pack(">HHIH", 99, 1, 120, 0) + chain
        else:
            # the chain inside PTR rdata (decoded lazily by answers())
            own = b"\x01o\0"
            data = header(an=1) + own + struct.pack(">HHIH", 12, 1, 120, 2) + ptr(12 + len(own) + 10 + 2 + order[0] * hop) + chain if False else \
                header(an=1) + first + struct.pack(">HHIH", 12, 1, 120, 2) + ptr(start + order[0] * hop) + chain
        return data[:MAX], "%s-%d" % (shape, k)
    if shape in ("cycle", "two-cycles"):
        k = rng.choice([2, 3, 10, 200])
        start = here()
        for i in range(k):
            nxt = start + 2 * ((i + 1) % k)
            body += ptr(nxt)
        if shape == "two-cycles":
            s2 = here()
            for i in range(k):
                body += b"\x01a" + ptr(s2 + 4 * ((i + 1) % k))
        body += struct.pack(">HH", 12, 1)
        return header(qd=1) + bytes(body), "%s-%d" % (shape, k)
    if shape == "self":
        body += ptr(here()) + struct.pack(">HH", 12, 1)
        return header(qd=1) + bytes(body), shape
    if shape == "forward":
        # question name = pointer forward to a name after the question
        tgt = 12 + 2 + 4
        body += ptr(tgt) + struct.pack(">HH", 12, 1) + b"\x03fwd\x05local\0"
        return header(qd=1) + bytes(body), shape
    if shape == "into-rdata":
        # answer 1: TXT with bytes that look like labels; answer 2's name points into that rdata
        body += b"\x01a\x05local\0" + struct.pack(">HHIH", 16, 1, 120, 12)
        rd = here()
        body += b"\x03xyz\x04" + gen.rand_bytes(rng, 4) + rng.choice([b"\0", b"\xc0\x0c", ptr(rd)]) + b"\0"
        body = body[: rd - base + 12]
        body += ptr(rd + rng.choice([0, 1, 4])) + struct.pack(">HHIH", 1, 1, 120, 4) + b"\x01\x02\x03\x04"
        return header(an=2) + bytes(body), shape
    if shape == "into-header":
        body += ptr(rng.randrange(0, 12)) + struct.pack(">HH", 12, 1)
        return header(id_=rng.randrange(65536), flags=rng.choice([0, 0x0100, 0x3F00]), qd=1) + bytes(body), shape
    if shape == "to-end":
        body += b"\x01a"
        total = 12 + len(body) + 2 + 4
        body += ptr(total + rng.choice([-1, 0, 1])) + struct.pack(">HH", 12, 1)
        return header(qd=1) + bytes(body), shape
    if shape in ("fan-in", "fan-in-empty"):
        k = rng.choice([10, 100, 126, 127, 128, 129, 400, 2000])
        n = rng.choice([10, 100, 300, 600])
        k = min(k, (MAX - 12 - 12 * n - 8) // 2)
        base = 12 + 12 * n
        term = here()
        body += b"\0" if shape == "fan-in-empty" else b"\x01z\0"
        prev = term
        for _ in range(k):
            o = here()
            body += ptr(prev)
            prev = o
        recs = (ptr(prev) + struct.pack(">HHIH", 99, 1, 120, 0)) * n
        return header(an=n) + recs + bytes(body), "%s-%dx%d" % (shape, k, n)
    if shape == "long-then-ref":
        # a name of about 254 characters or more is first met where the failure is survivable (rdata of a record with a known
        # rdlength, directly or through a pointer to labels hidden in TXT rdata); later names are bare pointers to it or into it
        total = rng.choice([250, 252, 253, 254, 255, 256, 300, 400])
        labels: List[bytes] = []
        left = total - 1                       # text length = sum(len)+count ; ends with '.'
        while left > 0:
            n = min(left - 1, rng.choice([63, 63, 40, 17, 1])) if left > 1 else 0
            if n <= 0:
                break
            labels.append(bytes(rng.choice(b"abcxyz") for _ in range(n)))
            left -= n + 1
        enc = b"".join(bytes([len(l)]) + l for l in labels) + b"\0"
        hidden = rng.random() < 0.5
        recs = bytearray()
        if hidden:
            # TXT record whose rdata is the label chain (a TXT decoder never looks inside)
            owner = b"\x01t\0"
            recs += owner + struct.pack(">HHIH", 16, 1, 120, len(enc))
            x = here() + len(recs)
            recs += enc
            first = owner_a = b"\x01a\0"
            rd = ptr(x)
            recs += owner_a + struct.pack(">HHIH", rng.choice([12, 5]), 1, 120, len(rd)) + rd
            n_rec = 2
        else:
            owner_a = b"\x01a\0"
            recs += owner_a + struct.pack(">HHIH", rng.choice([12, 5, 33]), 1, 120, 0)
            kind = struct.unpack(">H", recs[-10:-8])[0]
            pre = struct.pack(">HHH", 0, 0, 80) if kind == 33 else b""
            x = here() + len(recs) + len(pre)
            rd = pre + enc
            recs[-2:] = struct.pack(">H", len(rd))
            recs += rd
            n_rec = 1
        # followers: owner names / rdata names that are nothing but a pointer to x (or to a later label inside the chain)
        for _ in range(rng.choice([1, 2, 3])):
            into = x
            if rng.random() < 0.3 and len(labels) > 1:
                into = x + len(labels[0]) + 1
            if rng.random() < 0.5:
                recs += ptr(into) + struct.pack(">HHIH", 1, 1, 120, 4) + b"\x0a\0\0\x01"
            else:
                recs += b"\x01b\0" + struct.pack(">HHIH", 12, 1, 120, 2) + ptr(into)
            n_rec += 1
        return header(flags=0x8400, an=n_rec) + bytes(recs), "%s-%d%s" % (shape, total, "-hidden" if hidden else "")
    if shape == "label-bomb":
        # many 1-byte labels then pointer back to the start region repeatedly (label count / name length guards)
        start = here()
        for _ in range(rng.choice([60, 127, 128, 129, 200])):
            body += b"\x01a"
        body += b"\0"
        second = here()
        body += b"\x01b" + ptr(start)
        body += ptr(second) + struct.pack(">HH", 12, 1)
        return header(qd=0, an=0) + bytes(body) if rng.random() < 0.2 else header(qd=1) + ptr(12 + 2 + 4) + struct.pack(">HH", 12, 1) + bytes(body), shape
    return header(), shape


def exhaustive_strings(maxlen: int, shard: int, n_shards: int):
    idx = 0
    for ln in range(0, maxlen + 1):
        for combo in itertools.product(ALPHABET, repeat=ln):
            if idx % n_shards == shard:
                yield bytes(combo)
            idx += 1


def run_shard(spec):
    res = Result()
    rng = rng_for("c02", spec["seed"], spec["shard"])
    per = spec["per"]
    for i in range(per):
        r = i % 10
        if r < 2:
            check_one(gen_random(rng), res, "random")
        elif r < 5:
            base, src = valid_message(rng)
            m, how = mutate(rng, base)
            if rng.random() < 0.3:
                m, how2 = mutate(rng, m)
                how += "+" + how2
            check_one(m, res, "mut-" + src, how)
        elif r < 7:
            data, shape = gen_compression_graph(rng)
            check_one(data, res, "graph", shape)
        else:
            base, src = valid_message(rng)
            if rng.random() < 0.3 and len(base) > 12:
                # value-only mutation that keeps the structure valid: id / flags
                b = bytearray(base)
                b[rng.randrange(0, 4)] ^= 1 << rng.randrange(8)
                base = bytes(b)
            check_one(base, res, src)
    one_q_header = header(qd=1)
    one_rr_header = header(an=1)
    for s in exhaustive_strings(spec["exh"], spec["shard"], spec["n_shards"]):
        check_one(one_q_header + s, res, "exhaustive-q", "len%d" % len(s))
        check_one(one_rr_header + s, res, "exhaustive-rr", "len%d" % len(s))
    res.extra["const_exhaustive_alphabet_len"] = spec["exh"]
    return res


def replay(blob):
    res = Result()
    check_one(bytes.fromhex(blob["data"]), res, blob.get("gen", "replay"))
    return res


# thorough tier only: the repository's own test suite, run under the invariant monitors of vlib/suite_monitors.py
from . import _suite  # noqa: E402
_suite.attach(globals(), "c02.", "suite.c02.decode", 500)
