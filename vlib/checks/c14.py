from . import _codec

PROPERTY_ID = "C14"
LEVEL = "exploration"
RULE = ("Same generators as C01 (random messages with 0..300 entries per section, oversize single entries of 1440..8966 bytes "
        "in first/middle/last position, 1460-limit boundary sweep). Every emitted datagram is parsed by the independent parser: "
        "size limits, header flags/id/TC, counts-versus-content, and per-section multiset+order accounting over the whole "
        "sequence. Distinct = distinct tuples (mode, sections populated, #packets bucket, oversize count, generator tag).")
ASSUMPTIONS = ["entries that cannot fit one 8966-byte datagram on their own are outside the quantifier and not generated"]


def floors(tier):
    n = 12000 if tier == "quick" else 600000
    return {"c14.size": n, "c14.header": n, "c14.accounting": n}


def plan(tier, seed):
    return _codec.plan("C14", tier, seed)


def run_shard(spec):
    return _codec.run_shard(spec)


def replay(blob):
    return _codec.replay("C14", blob)


# thorough tier only: the repository's own test suite, run under the invariant monitors of vlib/suite_monitors.py
from . import _suite  # noqa: E402
_suite.attach(globals(), "c14.", "suite.c14.datagram", 500)
