"""C11 - replies are routed and formatted as RFC 6762 sections 5.4, 6 and 6.7 require."""
from __future__ import annotations

import random
import socket
from typing import Any, Dict, List, Optional, Set, Tuple

from .. import respond as R
from .. import simnet, wire
from ..common import Result, rng_for, tb
from ..models import ENUM_NAME, ResponderModel, Svc

PROPERTY_ID = "C11"
LEVEL = "exploration"
RULE = ("A real Zeroconf (single socket, or wildcard listen socket + v4 and v6 respond sockets) with 1..3 services (custom TTLs) "
        "receives well-spaced injected queries: 1..4 questions mixing QU/QM over PTR/SRV/TXT/A/AAAA/ANY/enumeration, with or "
        "without an authority section (probe), ids 0..65535, from port 5353 or a legacy port, v4 or v6 source, as multicast or as "
        "unicast to a respond socket, at arrival times placing the age of a chosen record since its last multicast sighting at "
        "ttl/4-1 ms, ttl/4, ttl/4+1 ms, fresh, or long expired. Every datagram sent in the following 1.4 s is decoded by the "
        "independent parser and compared with a routing model: which records must go by unicast (to source addr/port, via the "
        "receiving socket, id echoed, questions echoed for legacy sources, no flush bits) and which by multicast (id 0, QR|AA, no "
        "questions, flush bit exactly on non-PTR records, group address of the sending socket's family). Extra families: two legacy "
        "resolvers sending identical bytes, one mDNS sender repeating a query whose QU question is first/middle/last, a legacy "
        "query arriving while a truncated query from port 5353 of the same address is being held; host names in several "
        "spellings. Distinct = (source "
        "class, QU/QM mix, probe, recency bucket, layout, question type) classes.")
ASSUMPTIONS = ["queries are spaced >= 2.6 s so that replies are attributable to one query",
               "'last multicast sighting' is read from the host's own cache (own transmissions loop back) just before the query arrives"]


def floors(tier):
    q = tier == "quick"
    return {"c11.unicast": 10000 if q else 1000000, "c11.multicast": 30000 if q else 3000000, "c11.routing": 15000 if q else 1500000,
            "c11.probe_at_once": 3000 if q else 300000}


def plan(tier, seed):
    if tier == "quick":
        n, per = 16, 500
    else:
        n, per = 64, 12000
    return [{"seed": seed, "shard": i, "per": per, "tier": tier} for i in range(n)]


IMMEDIATE = {47, 33, 1, 28}


def probe_obj(ident: Tuple) -> Any:
    import zeroconf._dns as d
    kind, name, rd = ident
    if kind == "PTR":
        return d.DNSPointer(name, 12, 1, 0, rd[0], 1.0)
    if kind == "SRV":
        return d.DNSService(name, 33, 1, 0, rd[0], rd[1], rd[2], rd[3], 1.0)
    if kind == "TXT":
        return d.DNSText(name, 16, 1, 0, rd[0], 1.0)
    if kind == "NSEC":
        return d.DNSNsec(name, 47, 1, 0, name, list(rd[0]), 1.0)
    return d.DNSAddress(name, 1 if kind == "A" else 28, 1, 0, rd[0], created=1.0)


def route(model: ResponderModel, questions: List[Tuple[str, int, bool]], legacy: bool, is_probe: bool, now: float,
          sighting: Dict[Tuple, Optional[Tuple[float, float]]]) -> Tuple[Set[Tuple], Set[Tuple], bool]:
    """-> (records expected by unicast, records expected by multicast, exact)"""
    ucast: Set[Tuple] = set()
    mcast: Set[Tuple] = set()
    exact = True
    for name, qtype, qu in questions:
        ans, _, ex = model.expected([(name, qtype)], {})
        exact = exact and ex
        for ident in ans:
            s = sighting.get(ident)
            recent = s is not None and s[0] + 250.0 * s[1] > now
            if not legacy and qu:
                if is_probe:
                    ucast.add(ident)
                if not recent:
                    mcast.add(ident)
                elif not is_probe:
                    ucast.add(ident)
            else:
                if legacy:
                    ucast.add(ident)
                mcast.add(ident)
    return ucast, mcast, exact


def run_scenario(res: Result, seed: int) -> None:
    rng = random.Random(seed)
    res.evaluations += 1
    layout = rng.choice(["single", "split"])
    nsvc = rng.choice([1, 2, 3])
    svcs: List[Svc] = []
    hostnames = [R.spell(rng, "host%d" % k) + ".local." for k in range(nsvc)]
    for i in range(nsvc):
        s = R.gen_service(rng, type_=rng.choice(["_http._tcp.local.", "_ipp._tcp.local."]), min_ttl=8)
        s.name = "svc%d.%s" % (i, s.type)
        s.server = hostnames[i if rng.random() < 0.7 else 0]
        svcs.append(s)
    model = ResponderModel()
    desc: Dict[str, Any] = {"layout": layout, "svcs": [s.brief() for s in svcs], "queries": []}

    def viol(monitor: str, kind: str, detail: str, **sig: Any) -> None:
        res.violation(monitor, kind, detail, dict(sig, layout=layout), {"seed": seed, "scenario": desc})

    with simnet.Sim(seed & 0xFFFF) as sim:
        async def main():
            host = sim.net.add_host("H", "10.0.0.1", "fe80::1" if layout == "split" else None, layout=layout)
            azc = await sim.start_host(host)
            zc = azc.zeroconf
            tasks = []
            for s in svcs:
                tasks.append(await zc.async_register_service(R.make_info(s), cooperating_responders=True))
                model.register(s)
            for t in tasks:
                await t
            last_announce = sim.now_ms()
            universe = model.all_idents()
            nq = rng.choice([3, 5, 8])
            for qi in range(nq):
                # ---- choose the query
                target = rng.choice(svcs)
                k = rng.choice([1, 1, 2, 3, 4])
                pool = [(target.type, 12), (target.name, 33), (target.name, 16), (target.server, 1), (target.server, 28), (target.type, 255),
                        (target.name, 255), (ENUM_NAME, 12), (rng.choice(svcs).type, 12), ("nobody._http._tcp.local.", 33)]
                questions = []
                for _ in range(k):
                    nm, qt = rng.choice(pool)
                    questions.append((nm if rng.random() < 0.8 else nm.upper(), qt, rng.random() < 0.45))
                legacy = rng.random() < 0.3
                v6 = layout == "split" and rng.random() < 0.3
                is_probe = rng.random() < 0.2
                as_unicast = layout == "split" and rng.random() < 0.3
                qid = rng.choice([0, 1, 4660, 65535, rng.randrange(65536)])
                src_ip = "fe80::77" if v6 else "10.0.0.%d" % rng.randrange(60, 70)
                src_port = rng.choice([p for p in (rng.randrange(1024, 65535), 40001) if p != 5353]) if legacy else 5353
                ep = sim.net.endpoint(src_ip, src_port)
                # ---- choose the arrival instant relative to the last sighting of one answering record
                exp0, _, _ = model.expected([(n, t) for n, t, _ in questions], {})

                def own_ttl(ident: Tuple, cached_ttl: float) -> float:
                    ttls = universe.get(ident) or set()
                    return float(next(iter(ttls))) if len(ttls) == 1 else cached_ttl
                bucket = rng.choice(["quarter-1", "quarter", "quarter+1", "fresh", "old", "any"])
                soon = is_probe and rng.random() < 0.5
                if soon:
                    # a probe shortly after other traffic: the records it asks for were multicast less than a second ago
                    bucket = "probe-soon-after"
                    await sim.sleep_ms(rng.choice([150, 400, 700, 990]))
                else:
                    await sim.sleep_ms(2600)
                if exp0 and bucket.startswith("quarter"):
                    ident = rng.choice(sorted(exp0, key=repr))
                    rec = R.last_seen_copy(zc.cache, probe_obj(ident))
                    if rec is not None:
                        quarter = rec.created + 250.0 * own_ttl(ident, rec.ttl) + {"quarter-1": -1.0, "quarter": 0.0, "quarter+1": 1.0}[bucket]
                        if quarter > sim.now_ms():
                            await sim.sleep_until_ms(quarter)
                        else:
                            bucket = "past-quarter"
                    else:
                        bucket = "not-cached"
                elif bucket == "old":
                    await sim.sleep_ms(rng.choice([130_000, 5_000_000]))
                # ---- snapshot sightings, inject, observe
                sighting: Dict[Tuple, Optional[Tuple[float, float]]] = {}
                for ident in universe:
                    rec = R.last_seen_copy(zc.cache, probe_obj(ident))
                    # "a quarter of its TTL": the TTL the record is registered with - not the TTL of the looped-back copy in the
                    # host's own cache, which for pointer records is raised to the 1125 s floor
                    sighting[ident] = None if rec is None else (rec.created, own_ttl(ident, rec.ttl))
                now = sim.now_ms()
                auth = [(("PTR", target.type, ("probe-name." + target.type,)), 120)] if is_probe else []
                data = R.build_query(questions, id_=qid, authorities=auth)
                if as_unicast:
                    cands = [s for s in host.respond if (s.family == socket.AF_INET6) == v6]
                    rsock = cands[0]
                else:
                    rsock = host.listen[0]
                mark = len(sim.net.trace)
                # another querier on the same machine: an mDNS querier (port 5353) of that address has a truncated query being
                # held for its continuation when the legacy resolver's query arrives (its question is about a type nobody here
                # offers, so it adds nothing to the expected answers)
                neighbour_tc = legacy and rng.random() < 0.3
                if neighbour_tc:
                    sim.net.inject_now(host, R.build_query([("_nosuch._tcp.local.", 12, False)], id_=0, tc=True), (src_ip, 5353), sock=rsock)
                    gap_tc = rng.choice([0, 0, 50, 300])
                    if gap_tc:
                        await sim.sleep_ms(gap_tc)
                        now = sim.now_ms()
                        for ident in universe:
                            rec = R.last_seen_copy(zc.cache, probe_obj(ident))
                            sighting[ident] = None if rec is None else (rec.created, own_ttl(ident, rec.ttl))
                sim.net.inject_now(host, data, (src_ip, src_port), sock=rsock)
                await sim.sleep_ms(1400)
                qdesc = {"questions": questions, "legacy": legacy, "probe": is_probe, "v6": v6, "unicast_delivery": as_unicast, "id": qid, "bucket": bucket, "soon": soon,
                         "neighbour_tc": neighbour_tc}
                desc["queries"].append(qdesc)
                evaluate(res, sim, host, model, questions, legacy, is_probe, now, sighting, qid, (src_ip, src_port), rsock, mark, ep, viol, qdesc, layout)
            await azc.async_close()

        try:
            sim.run(main())
        except Exception as e:
            viol("c11.routing", "exception", "exception during scenario: %r\n%s" % (e, tb()), exc_type=type(e).__name__)
            return
        for esc in sim.net.escapes[:1]:
            viol("c11.routing", "loop_exception", repr(esc)[:800])
    if res.evaluations % 17 == 1:
        res.sample(desc if len(desc["queries"]) < 4 else dict(desc, queries=desc["queries"][:3]))


def evaluate(res, sim, host, model, questions, legacy, is_probe, now, sighting, qid, src, rsock, mark, ep, viol, qdesc, layout) -> None:
    want_u, want_m, exact = route(model, questions, legacy, is_probe, now, sighting)
    universe = model.all_idents()
    # A record that several registered services give different TTLs (address records of a shared host) has no single "its
    # TTL": the quarter may be taken from any of them.  Where the smallest and the largest lead to different routes the record
    # is accepted on either path (counted).
    multi = {i: ttls for i, ttls in universe.items() if len(ttls) > 1}
    ambiguous: Set[Tuple] = set()
    if multi:
        for pick in (min, max):
            alt = dict(sighting)
            for i, ttls in multi.items():
                if alt.get(i) is not None:
                    alt[i] = (alt[i][0], float(pick(ttls)))
            u2, m2, _ = route(model, questions, legacy, is_probe, now, alt)
            ambiguous |= (u2 ^ want_u) | (m2 ^ want_m)
        if ambiguous:
            res.obs("route_of_record_with_several_registered_ttls_accepted_either_way", len(ambiguous))
    entries = sim.net.trace[mark:]
    got_u: Set[Tuple] = set()
    got_m: Set[Tuple] = set()
    sig = {"src": "legacy" if legacy else "mdns", "probe": is_probe, "bucket": qdesc["bucket"]}
    mcast_fds = sorted({e["fd"] for e in entries if e["mcast"]})
    for e in entries:
        m = wire.parse(e["data"], strict=True)
        if not m.is_response:
            continue
        hdr = wire.header_counts(e["data"])
        if e["mcast"]:
            res.mon("c11.multicast")
            if hdr[0] != 0:
                viol("c11.multicast", "multicast_id_not_zero", "multicast reply with id %d" % hdr[0], **sig)
            if (m.flags & 0x8400) != 0x8400 or (m.flags & 0x0200):
                viol("c11.multicast", "multicast_flags", "multicast reply flags %#06x" % m.flags, **sig)
            if m.questions:
                viol("c11.multicast", "multicast_has_questions", "multicast reply echoes %d question(s)" % len(m.questions), **sig)
            for r in m.answers + m.additionals:
                ident = R.ident_of_wire(r)
                want_flush = ident[0] != "PTR"
                if bool(r.cls & 0x8000) != want_flush:
                    viol("c11.multicast", "multicast_flush_bit", "%r multicast with cache-flush=%s" % (ident, bool(r.cls & 0x8000)), kind_of_record=ident[0], **sig)
            sock_v6 = e["dst"][0] == simnet.MDNS6
            fam_sock = [s for s in host.all_sockets() if s.fileno() == e["fd"]][0]
            if (fam_sock.family == socket.AF_INET6) != sock_v6 or e["dst"][1] != 5353:
                viol("c11.multicast", "multicast_family", "socket family %s sent to %r" % (fam_sock.family, e["dst"]), **sig)
            if e["fd"] == mcast_fds[0]:
                got_m.update(R.ident_of_wire(r) for r in m.answers)
        else:
            res.mon("c11.unicast")
            if e["dst"][0] != src[0] or e["dst"][1] != src[1]:
                viol("c11.unicast", "unicast_destination", "unicast reply sent to %r, query came from %r" % (e["dst"], src), **sig)
            if e["fd"] != rsock.fileno():
                viol("c11.unicast", "unicast_wrong_socket", "unicast reply sent on socket %d, query was received on %d" % (e["fd"], rsock.fileno()), **sig)
            if e["fd"] == rsock.fileno() and rsock.family == socket.AF_INET and ":" in e["dst"][0]:
                viol("c11.unicast", "unicast_family", "v6 destination on an IPv4 socket", **sig)
            if legacy:
                if hdr[0] != qid:
                    viol("c11.unicast", "unicast_id_not_echoed", "legacy reply id %d, query id %d" % (hdr[0], qid), **sig)
                got_q = [(q.name.text(), q.type, bool(q.cls & 0x8000)) for q in m.questions]
                want_q = [(n, t, False) for n, t, qu in questions]
                if [(n, t) for n, t, _ in got_q] != [(n, t) for n, t, _ in want_q]:
                    viol("c11.unicast", "unicast_questions_not_echoed", "legacy reply questions %r, query had %r" % (got_q, questions), **sig)
            for r in m.answers + m.additionals:
                if r.cls & 0x8000:
                    viol("c11.unicast", "unicast_flush_bit", "%r sent by unicast with the cache-flush bit" % (R.ident_of_wire(r),), **sig)
                if R.ident_of_wire(r) not in universe:
                    viol("c11.unicast", "unicast_foreign_record", "%r is not a record of this host" % (R.ident_of_wire(r),), **sig)
            got_u.update(R.ident_of_wire(r) for r in m.answers)
    if is_probe and exact:
        # "probe queries are answered at once": every record owed to a probe leaves in the very instant the probe arrives
        res.mon("c11.probe_at_once")
        at_once_u: Set[Tuple] = set()
        at_once_m: Set[Tuple] = set()
        for e in entries:
            if abs(e["t"] - now) > 1e-6:
                continue
            m = wire.parse(e["data"], strict=True)
            if m.is_response:
                (at_once_m if e["mcast"] else at_once_u).update(R.ident_of_wire(r) for r in m.answers)
        late = sorted(((want_m - at_once_m) | (want_u - at_once_u)) - (ambiguous & (at_once_m | at_once_u)), key=repr)
        if late:
            when = sorted({round(e["t"] - now, 1) for e in entries for r in wire.parse(e["data"], strict=True).answers if R.ident_of_wire(r) in late})
            viol("c11.probe_at_once", "probe_answer_delayed", "probe %r: %r not sent in the arrival instant (sent at +%r ms)" % (questions, late[:3], when),
                 channel=("mcast" if (want_m - at_once_m) else "ucast"), **sig)
    if qdesc.get("soon"):
        # replies to earlier queries may still be in flight: only the at-once rule is judged for this query
        res.cls(sig["src"], "probe-soon-after", layout)
        return
    res.mon("c11.routing")
    if exact:
        got_u, want_u, got_m, want_m = got_u - ambiguous, want_u - ambiguous, got_m - ambiguous, want_m - ambiguous
        if got_u != want_u:
            viol("c11.routing", "unicast_set_differs", "query %r (legacy=%s probe=%s): unicast answers %r expected %r" % (
                questions, legacy, is_probe, sorted(got_u, key=repr)[:4], sorted(want_u, key=repr)[:4]),
                diff=("missing" if want_u - got_u else "extra"), **sig)
        if got_m != want_m:
            detail = []
            for ident in sorted(got_m ^ want_m, key=repr)[:3]:
                s = sighting.get(ident)
                detail.append("%r sighting age %s ttl %s" % (ident, None if s is None else now - s[0], None if s is None else s[1]))
            viol("c11.routing", "multicast_set_differs", "query %r (legacy=%s probe=%s): multicast answers differ: missing %r extra %r [%s]" % (
                questions, legacy, is_probe, sorted(want_m - got_m, key=repr)[:3], sorted(got_m - want_m, key=repr)[:3], "; ".join(detail)),
                diff=("missing" if want_m - got_m else "extra"), **sig)
    qmix = "".join(sorted({"U" if qu else "M" for _, _, qu in questions}))
    res.cls(sig["src"], "qmix=" + qmix, "probe" if is_probe else "-", qdesc["bucket"], layout, "v6" if qdesc["v6"] else "v4",
            "ucastdeliv" if qdesc["unicast_delivery"] else "mcastdeliv", "u%d" % min(len(want_u), 2), "m%d" % min(len(want_m), 2))


def run_twins(res: Result, seed: int) -> None:
    """Two legacy resolvers (different address or port) send byte-identical queries within a second - same question, same
    id, e.g. both use id 0.  'A query from a source port other than 5353 gets a unicast reply to that address and port':
    each of them is owed its own reply."""
    rng = random.Random(seed)
    res.evaluations += 1
    layout = rng.choice(["single", "split"])
    T = "_http._tcp.local."
    s = Svc(T, "twin." + T, "twin-host.local.", 80, b"\x03a=1", [b"\x0a\x00\x00\x05"], [], 120, 4500)
    gap = rng.choice([0.0, 1.0, 100.0, 500.0, 900.0, 1500.0])
    qkind = rng.choice(["ptr", "srv", "a"])
    qid = rng.choice([0, 0, 4660])
    second = rng.choice(["other-address", "other-port", "same-sender-qu"])
    # same-sender-qu: an mDNS querier (port 5353) repeats a query that contains a QU question - first, in the middle or last
    # among QM questions - within a second: 'a QU question from port 5353 is answered by unicast', every time it is asked
    qu_pos = rng.choice(["only", "first", "middle", "last"])
    desc = {"twins": True, "qu_pos": qu_pos, "gap": gap, "question": qkind, "id": qid, "second": second, "layout": layout}

    def viol(kind: str, detail: str, **sig: Any) -> None:
        res.violation("c11.unicast", kind, detail, dict(sig, family="twins", layout=layout), {"seed": seed, "twins": True, "scenario": desc})

    with simnet.Sim(seed & 0xFFFF) as sim:
        out: Dict[str, Any] = {}

        async def main():
            host = sim.net.add_host("H", "10.0.0.1", None, layout=layout)
            azc = await sim.start_host(host)
            zc = azc.zeroconf
            t = await zc.async_register_service(R.make_info(s), cooperating_responders=True)
            await t
            await sim.sleep_ms(3000)
            q = {"ptr": [(T, 12, False)], "srv": [(s.name, 33, False)], "a": [(s.server, 1, False)]}[qkind]
            if second == "same-sender-qu":
                quq = (q[0][0], q[0][1], True)
                others = [("nobody._http._tcp.local.", 33, False), (s.name, 16, False)]
                q = {"only": [quq], "first": [quq] + others, "middle": [others[0], quq, others[1]], "last": others + [quq]}[qu_pos]
            data = R.build_query(q, id_=qid)
            a = sim.net.endpoint("10.0.0.61", 40001)
            b = sim.net.endpoint("10.0.0.62", 40001) if second == "other-address" else sim.net.endpoint("10.0.0.61", 40002)
            if second == "same-sender-qu":
                a = b = sim.net.endpoint("10.0.0.61", 5353)
            out["a"], out["b"] = a, b
            out["mark"] = len(sim.net.trace)
            sim.net.inject_now(host, data, (a.ip, a.port), sock=host.listen[0])
            await sim.sleep_ms(gap)
            sim.net.inject_now(host, data, (b.ip, b.port), sock=host.listen[0])
            await sim.sleep_ms(1500)
            await azc.async_close()
        try:
            sim.run(main())
        except Exception as e:
            viol("exception", "exception in twins scenario: %r\n%s" % (e, tb()), exc_type=type(e).__name__)
            return
        res.mon("c11.unicast")
        res.mon("c11.unicast.twins")
        if second == "same-sender-qu":
            ep = out["a"]
            got = [e for e in sim.net.trace[out["mark"]:] if not e["mcast"] and tuple(e["dst"]) == (ep.ip, ep.port)]
            if len(got) < 2 and gap > 0:
                viol("repeated_qu_query_not_answered", "an mDNS querier asked a query with a QU question (%s among its questions) twice, %.0f ms apart; "
                     "%d unicast repl%s instead of one per query" % (qu_pos, gap, len(got), "y" if len(got) == 1 else "ies"), qu_pos=qu_pos)
            res.cls("twins", second, "gap=%d" % gap, qkind, layout, qu_pos)
            return
        for who in ("a", "b"):
            ep = out[who]
            got = [e for e in sim.net.trace[out["mark"]:] if not e["mcast"] and tuple(e["dst"]) == (ep.ip, ep.port)]
            if not got:
                viol("legacy_query_not_answered", "two legacy resolvers sent the same bytes %.0f ms apart (%s); the %s one (%s:%d) got no unicast reply" % (
                    gap, second, "first" if who == "a" else "second", ep.ip, ep.port), which=who)
        res.cls("twins", second, "gap=%d" % gap, qkind, layout)


def run_shard(spec):
    res = Result()
    rng = rng_for("c11", spec["seed"], spec["shard"])
    for i in range(spec["per"]):
        run_scenario(res, rng.randrange(1 << 30))
        if i % 4 == 3:
            run_twins(res, rng.randrange(1 << 30))
    return res


def replay(blob):
    res = Result()
    if blob.get("twins"):
        run_twins(res, blob["seed"])
        return res
    run_scenario(res, blob["seed"])
    return res
