"""C18 - service-info lookup: bounded, cache-first, never from expired data."""
from __future__ import annotations

import asyncio
import random
from typing import Any, Dict, List, Optional, Set, Tuple

from .. import respond as R
from .. import simnet, wire
from ..common import Inconclusive, Result, rng_for, tb

PROPERTY_ID = "C18"
LEVEL = "exploration"
RULE = ("AsyncServiceInfo.async_request on a real Zeroconf in virtual time. Cache state at the start is drawn from the product "
        "{SRV,TXT,A,AAAA} x {absent, fresh, stale (>50 %), expired-but-unpurged} (plus several addresses, an SRV pointing at a "
        "host with or without addresses); the missing records arrive from a fake peer at offsets on a grid over [0, timeout+100 "
        "ms] - including the query instants and the deadline itself - alone or together, with normal, 1 s or 0 TTL, and "
        "optionally an SRV that changes the target host mid-lookup; timeout in {200,500,1000,3000,10000} ms; question type "
        "forced QU/QM or not. Monitors: return time <= start+timeout; True <=> at least one address known; fields equal a model "
        "that replays, in order, exactly the records handed to the info object (logged by a read-only wrapper at "
        "_process_record_threadsafe with their created/ttl at that instant) and ignores the expired ones; every address/SRV used "
        "was unexpired at or after the start; zero datagrams iff the cache sufficed; first query QU then QM (or forced); every "
        "query, judged against a snapshot of the cache taken at the send instant: SRV/TXT asked only while no answer with more "
        "than half its TTL is held (and always then, in QU queries), address questions go to the SRV target the object knew at "
        "that moment; all address accessors (by version, parsed, scoped, dns_addresses) are views of one duplicate-free list. "
        "a lookup that returns False is also judged from the cache alone (the SRV received last and a live address of its target, both "
        "received before the return => it had what it needed). Records in one datagram arrive in shuffled order (addresses before the SRV that makes them relevant); SRV targets and address owners are sometimes spelled in another letter case than before. Distinct "
        "= (cache-state tuple, arrival bucket, timeout, forced type, outcome) classes.")
ASSUMPTIONS = ["the read instant of a record is observed by wrapping ServiceInfo._process_record_threadsafe from the harness (no source change)",
               "at most one SRV record per instance is cached at a time (target changes arrive with the cache-flush bit)"]

T = "_http._tcp.local."
NAME = "thing." + T
HOSTS = ["thing-host.local.", "other-host.local."]
ADDRS = {"A": [b"\x0a\x00\x00\x05", b"\x0a\x00\x00\x06"], "AAAA": [b"\xfe\x80" + b"\0" * 13 + b"\x05", b"\xfd\x00" + b"\0" * 13 + b"\x06"]}


def floors(tier):
    q = tier == "quick"
    return {"c18.deadline": 8000 if q else 1000000, "c18.model": 8000 if q else 1000000, "c18.hook_reads": 15000 if q else 2000000, "c18.transmissions": 8000 if q else 1000000,
            "c18.views": 8000 if q else 1000000, "c18.completeness": 1500 if q else 150000, "c18.blocking": 60 if q else 400, "c18.questions.queries": 5000 if q else 600000}


def plan(tier, seed):
    if tier == "quick":
        n, per = 16, 1200
    else:
        n, per = 64, 18000
    return [{"seed": seed, "shard": i, "per": per, "tier": tier} for i in range(n)]


READS: List[Dict[str, Any]] = []
_installed = {"done": False}


def install_hook() -> None:
    """Read-only wrapper: logs every record handed to a ServiceInfo together with what the cache holds for an SRV target."""
    if _installed["done"]:
        return
    import zeroconf._dns as d
    from zeroconf._services.info import ServiceInfo
    orig = ServiceInfo._process_record_threadsafe

    def wrapper(self: Any, zc: Any, record: Any, now: float) -> bool:
        entry: Dict[str, Any] = {"info": id(self), "ident": R.ident_of_lib(record), "created": record.created, "ttl": record.ttl, "now": now, "server_cache": None}
        if isinstance(record, d.DNSService):
            snap = []
            for t in (1, 28):
                for r in zc.cache.get_all_by_details(record.server, t, 1):
                    snap.append((R.ident_of_lib(r), r.created, r.ttl))
            entry["server_cache"] = snap
        READS.append(entry)
        return orig(self, zc, record, now)

    ServiceInfo._process_record_threadsafe = wrapper  # type: ignore[method-assign]
    _installed["done"] = True


def gen_scenario(rng: random.Random) -> Dict[str, Any]:
    timeout = rng.choice([200, 500, 1000, 3000, 10000])
    forced = rng.choice([None, None, "QU", "QM"])
    state = {k: rng.choice(["absent", "absent", "fresh", "stale", "expired"]) for k in ("SRV", "TXT", "A", "AAAA")}
    if rng.random() < 0.25:
        state = {k: "fresh" for k in state}            # cache-only path
        if rng.random() < 0.5:
            state["AAAA"] = "absent"
    srv_host = HOSTS[0] if rng.random() < 0.8 else HOSTS[1]     # SRV may point at a host for which nothing is cached
    multi_a = rng.random() < 0.3
    arrivals = []
    grid = [0, 1, 100, 199, 200, 201, 300, 320, 500, 999, 1000, 1001, 1300, 2000, 2999, 3000, 3001, 9999, 10000, 10050]
    for _ in range(rng.choice([0, 1, 1, 2, 3, 4])):
        off = rng.choice(grid + [timeout - 1, timeout, timeout + 1, timeout + 100])
        kinds = list(rng.choice([["SRV"], ["TXT"], ["A"], ["AAAA"], ["SRV", "A"], ["SRV", "TXT", "A", "AAAA"], ["A", "AAAA"]]))
        rng.shuffle(kinds)          # address records may precede the SRV record that makes them relevant
        ttl_mode = rng.choice(["normal", "normal", "normal", "ttl1", "goodbye"])
        target = rng.choice([HOSTS[0], HOSTS[0], HOSTS[1]])
        arrivals.append({"off": float(off), "kinds": kinds, "ttl_mode": ttl_mode, "target": target, "addr_host": rng.choice([target, HOSTS[0]]),
                         "flush": rng.random() < 0.6,
                         # names are case-insensitive: a responder may spell the SRV target or an address owner differently
                         # from what was seen before (same host, nothing changes for the lookup)
                         "respell_srv": rng.random() < 0.3, "respell_addr": rng.random() < 0.15})
    arrivals.sort(key=lambda a: a["off"])
    return {"timeout": timeout, "forced": forced, "state": state, "srv_host": srv_host, "multi_a": multi_a, "arrivals": arrivals}


def rec_for(kind: str, host: str, variant: int = 0) -> Tuple:
    if kind == "SRV":
        return ("SRV", NAME, (0, 0, 8080 + variant, host))
    if kind == "TXT":
        return ("TXT", NAME, (b"\x03v=%d" % variant,))
    if kind == "A":
        return ("A", host, (ADDRS["A"][variant % 2],))
    return ("AAAA", host, (ADDRS["AAAA"][variant % 2],))


def run_scenario(res: Result, seed: int) -> None:
    from zeroconf import DNSQuestionType
    from zeroconf.asyncio import AsyncServiceInfo
    install_hook()
    rng = random.Random(seed)
    sc = gen_scenario(rng)
    res.evaluations += 1

    def viol(monitor: str, kind: str, detail: str, **sig: Any) -> None:
        res.violation(monitor, kind, detail, sig, {"seed": seed, "scenario": sc})

    delivered: List[Tuple[Tuple, float, float]] = []    # (identity, created, ttl) of everything that entered the cache
    out: Dict[str, Any] = {}
    with simnet.Sim(seed & 0xFFFF) as sim:
        async def main():
            host = sim.net.add_host("H", "10.0.0.1")
            azc = await sim.start_host(host)
            zc = azc.zeroconf
            t_engine = sim.now_ms()
            # S sits 4 s after a purge so that records expired shortly before S are still cached
            await sim.sleep_until_ms(t_engine + 10000.0 * rng.choice([1, 2]) + 1000.0)
            S = sim.now_ms() + 3000.0
            plan_inj: List[Tuple[float, List[Tuple[Tuple, int, bool]]]] = []
            for kind, st in sc["state"].items():
                hostn = sc["srv_host"] if kind == "SRV" else HOSTS[0]
                variants = [0, 1] if (kind in ("A", "AAAA") and sc["multi_a"]) else [0]
                for v in variants:
                    ident = rec_for(kind, hostn if kind == "SRV" else HOSTS[0], v)
                    if st == "fresh":
                        plan_inj.append((S - 100.0, [(ident, 120, True)]))
                    elif st == "stale":
                        plan_inj.append((S - 2500.0, [(ident, 4, True)]))      # 62 % of its TTL at S, expires at S+1500
                    elif st == "expired":
                        plan_inj.append((S - 1500.0, [(ident, 1, True)]))      # expired 500 ms before S, purge not yet run
            for when, recs in sorted(plan_inj, key=lambda x: x[0]):
                await sim.sleep_until_ms(when)
                sim.net.inject_now(host, R.build_response(recs, id_=len(delivered) + 1), ("10.0.0.9", 5353))
                for ident, ttl, _ in recs:
                    delivered.append((ident, sim.now_ms(), float(ttl)))
            await sim.sleep_until_ms(S)
            # arrivals during the lookup
            for i, a in enumerate(sc["arrivals"]):
                recs = []
                for k in a["kinds"]:
                    ident = rec_for(k, a["target"] if k == "SRV" else a["addr_host"], 1 if rng.random() < 0.2 else 0)
                    if k == "SRV" and a.get("respell_srv"):
                        ident = (ident[0], ident[1], ident[2][:3] + (ident[2][3].upper(),))
                    if k in ("A", "AAAA") and a.get("respell_addr"):
                        ident = (ident[0], ident[1].title(), ident[2])
                    ttl = {"normal": 120 if k != "TXT" else 4500, "ttl1": 1, "goodbye": 0}[a["ttl_mode"]]
                    recs.append((ident, ttl, a["flush"]))
                a["_recs"] = recs
                sim.net.inject(host, R.build_response(recs, id_=200 + i), ("10.0.0.9", 5353), delay_ms=a["off"])
            qt = {None: None, "QU": DNSQuestionType.QU, "QM": DNSQuestionType.QM}[sc["forced"]]
            READS.clear()
            out["send_cache"] = {}

            out["send_reads"] = {}

            def on_tx(entry: Dict[str, Any]) -> None:
                out["send_reads"][entry["i"]] = len(READS)       # reads logged so far: the ones that precede this send
                out["send_cache"][entry["i"]] = {lname: [(R.ident_of_lib(r), r.created, r.ttl) for r in zc.cache.entries_with_name(lname)]
                                                 for lname in (NAME.lower(), HOSTS[0], HOSTS[1])}
            sim.net.on_transmit = on_tx
            out["mark"] = len(sim.net.trace)
            out["S"] = sim.now_ms()
            out["cache_at_S"] = {lname: [(R.ident_of_lib(r), r.created, r.ttl) for r in zc.cache.entries_with_name(lname)]
                                 for lname in (NAME.lower(), HOSTS[0], HOSTS[1])}
            info = AsyncServiceInfo(T, NAME)
            out["info_id"] = id(info)
            r = await info.async_request(zc, sc["timeout"], qt)
            out["ret"] = sim.now_ms()
            out["result"] = r
            out["fields"] = {"server": info.server, "port": info.port, "priority": info.priority, "weight": info.weight, "text": info.text,
                             "addrs": set(info.addresses_by_version(__import__("zeroconf").IPVersion.All))}
            out["reads"] = [dict(x) for x in READS if x["info"] == id(info)]
            out["reads_all"] = [dict(x, mine=(x["info"] == id(info))) for x in READS]
            sim.net.on_transmit = None
            zmod = __import__("zeroconf")
            out["views"] = {
                "addresses": list(info.addresses),
                "v4": list(info.addresses_by_version(zmod.IPVersion.V4Only)),
                "v6": list(info.addresses_by_version(zmod.IPVersion.V6Only)),
                "all": list(info.addresses_by_version(zmod.IPVersion.All)),
                "parsed": list(info.parsed_addresses()),
                "parsed_scoped": list(info.parsed_scoped_addresses()),
                "ip_all": [a.packed for a in info.ip_addresses_by_version(zmod.IPVersion.All)],
                "dns_addresses": sorted((r.type, r.address, r.name.lower()) for r in info.dns_addresses()),
                "server": info.server,
                "name": info.name,
            }
            out["end_mark"] = len(sim.net.trace)
            out["cache_at_ret"] = {lname: [(R.ident_of_lib(r), r.created, r.ttl) for r in zc.cache.entries_with_name(lname)]
                                   for lname in (NAME.lower(), HOSTS[0], HOSTS[1])}
            await sim.sleep_ms(300)
            await azc.async_close()

        try:
            sim.run(main())
        except Exception as e:
            viol("c18.deadline", "exception", "exception during scenario: %r\n%s" % (e, tb()), exc_type=type(e).__name__)
            return
        for esc in sim.net.escapes[:1]:
            viol("c18.deadline", "loop_exception", repr(esc)[:800])
        analyse(res, sim, sc, out, delivered, viol)
    if res.evaluations % 37 == 1:
        res.sample({"timeout": sc["timeout"], "forced": sc["forced"], "state": sc["state"], "arrivals": [{k: v for k, v in a.items() if not k.startswith("_")} for a in sc["arrivals"]],
                    "result": out.get("result"), "took_ms": out.get("ret", 0) - out.get("S", 0)})


def analyse(res: Result, sim: simnet.Sim, sc: Dict[str, Any], out: Dict[str, Any], delivered: List[Tuple], viol) -> None:
    S, ret, result = out["S"], out["ret"], out["result"]
    f = out["fields"]
    # ---- deadline and success criterion
    res.mon("c18.deadline")
    if ret > S + sc["timeout"] + 1.0:
        viol("c18.deadline", "returned_after_deadline", "async_request(timeout=%d) returned after %.1f ms" % (sc["timeout"], ret - S))
    if bool(result) != bool(f["addrs"]):
        viol("c18.deadline", "result_vs_addresses", "returned %r with %d address(es) known" % (result, len(f["addrs"])), result=bool(result))
    # ---- replay the reads through the model
    reads = out["reads"]
    res.mon("c18.hook_reads", len(reads))
    res.mon("c18.model")
    key = NAME.lower()
    server_key: Optional[str] = None
    m: Dict[str, Any] = {"server": None, "port": None, "priority": 0, "weight": 0, "text": b"", "addrs": set()}
    used_expired = 0
    for rd in reads:
        kind, owner, rdata = rd["ident"]
        expired = rd["created"] + 1000.0 * rd["ttl"] <= rd["now"]
        if expired:
            used_expired += 1
            continue
        if kind in ("A", "AAAA") and owner == server_key:
            m["addrs"].add(rdata[0])
            continue
        if owner != key:
            continue
        if kind == "TXT":
            m["text"] = rdata[0]
        elif kind == "SRV":
            old = server_key
            m["priority"], m["weight"], m["port"], server_key = rdata[0], rdata[1], rdata[2], rdata[3]
            m["server"] = server_key
            if old != server_key:
                m["addrs"] = {i[2][0] for (i, created, ttl) in (rd["server_cache"] or []) if created + 1000.0 * ttl > rd["now"]}
    got = {"server": (f["server"] or "").lower() or None, "port": f["port"], "priority": f["priority"], "weight": f["weight"], "text": f["text"], "addrs": f["addrs"]}
    if got != m:
        diffs = [k for k in m if m[k] != got[k]]
        viol("c18.model", "fields_differ_from_unexpired_reads", "fields %r differ: library %r, replay of unexpired records %r (%d reads, %d of them expired)" % (
            diffs, {k: got[k] for k in diffs}, {k: m[k] for k in diffs}, len(reads), used_expired), field=diffs[0], expired_reads=used_expired > 0)
    # ---- independent of the hook: whatever is reported was unexpired at or after the start
    universe = list(delivered)
    for a in sc["arrivals"]:
        t = S + a["off"]
        if t <= ret + 1e-6:
            for ident, ttl, _ in a.get("_recs", []):
                universe.append(((ident[0], ident[1].lower(), tuple(x.lower() if isinstance(x, str) else x for x in ident[2])), t, float(ttl)))
    universe = [((i[0], i[1].lower(), tuple(x.lower() if isinstance(x, str) else x for x in i[2])), c, ttl) for i, c, ttl in universe]
    # (a cache-flush record re-stamps every *other* cached record of that name/type - even one that had already expired - to
    #  live one more second, so this independent cross-check only applies when no flush-bearing record of that kind arrived)
    if not result:
        # 'succeeds iff by then it knows an address': what the instance was handed it knows.  Judged from deliveries and the
        # cache alone (the hook-based replay above cannot see a record that never reaches the info object).  The SRV record
        # delivered last (any TTL; a tie within one instant is ambiguous and only counted) is the one a lookup follows; if it
        # is alive in the cache at the return exactly as delivered, and an address record of its target is alive in the cache
        # exactly as delivered at least 1 ms before the return, the lookup had what it needed.  'Exactly as delivered'
        # excludes copies that a cache-flush record re-stamped (created then no longer means received).
        res.mon("c18.completeness")
        car = out["cache_at_ret"]
        srv_events = sorted([(c, i, ttl) for i, c, ttl in universe if i[0] == "SRV" and i[1] == key and c <= ret - 1.0], key=lambda e: e[0])
        if srv_events and srv_events[-1][2] > 0 and not any(abs(e[0] - srv_events[-1][0]) < 1e-6 for e in srv_events[:-1]):
            c_srv, i_srv, _ttl = srv_events[-1]
            target = i_srv[2][3]

            def norm(x):
                return (x[0][0], x[0][1].lower(), tuple(v.lower() if isinstance(v, str) else v for v in x[0][2]))
            srv_alive = any(norm(x) == i_srv and abs(x[1] - c_srv) < 1e-6 and x[1] + 1000.0 * x[2] > ret for x in car.get(key, []))
            addr_deliveries = {(i, c) for i, c, ttl in universe if i[0] in ("A", "AAAA") and i[1] == target and ttl > 0 and c <= ret - 1.0}
            addrs = [y for y in car.get(target, []) if y[0][0] in ("A", "AAAA") and y[1] + 1000.0 * y[2] > ret
                     and any(norm(y) == i and abs(y[1] - c) < 1e-6 for i, c in addr_deliveries)]
            if srv_alive and addrs:
                viol("c18.completeness", "lookup_failed_although_cache_sufficed", "async_request returned False after %.0f ms although the SRV record delivered last "
                     "(%r, %.0f ms after the start) is cached and so are address record(s) of its target, delivered %s ms after the start" % (
                         ret - S, i_srv[2], c_srv - S, [round(y[1] - S) for y in addrs]))
            else:
                res.cls("completeness", "judged-insufficient")
        elif srv_events:
            res.obs("completeness_not_judged_srv_tie_or_goodbye")
    flushed_kinds = {(ident[0], ident[1].lower()) for a in sc["arrivals"] if S + a["off"] <= ret + 1e-6 for ident, ttl, fl in a.get("_recs", []) if fl}
    if result:
        for addr in f["addrs"]:
            if any(k[0] in ("A", "AAAA") for k in flushed_kinds):
                res.obs("independent_expiry_cross_check_skipped_flush_record_arrived")
                break
            ok = any(i[0] in ("A", "AAAA") and i[2][0] == addr and c + 1000.0 * ttl > S for i, c, ttl in universe)
            if not ok:
                viol("c18.model", "address_from_expired_record", "address %r reported although every record for it had expired before the lookup started" % (addr,))
        if f["server"] and not any(k[0] == "SRV" for k in flushed_kinds):
            ok = any(i[0] == "SRV" and i[1] == key and i[2][3] == f["server"].lower() and c + 1000.0 * ttl > S for i, c, ttl in universe)
            if not ok:
                viol("c18.model", "srv_from_expired_record", "server %r reported although every SRV naming it had expired before the lookup started" % (f["server"],))
    # ---- the address accessors are views of one list: they must agree with each other
    import ipaddress
    res.mon("c18.views")
    v = out["views"]
    allv = v["all"]
    problems = []
    if len(set(allv)) != len(allv):
        problems.append("duplicate address in addresses_by_version(All): %r" % (allv,))
    if v["addresses"] != v["v4"] or v["v4"] != [a for a in allv if len(a) == 4] or v["v6"] != [a for a in allv if len(a) == 16]:
        problems.append("per-version lists are not the split of the full list: v4=%r v6=%r all=%r addresses=%r" % (v["v4"], v["v6"], allv, v["addresses"]))
    if v["ip_all"] != allv:
        problems.append("ip_addresses_by_version differs from addresses_by_version: %r vs %r" % (v["ip_all"], allv))
    if v["parsed"] != [str(ipaddress.ip_address(a)) for a in allv]:
        problems.append("parsed_addresses %r is not the text form of %r" % (v["parsed"], allv))
    if [p.split("%")[0] for p in v["parsed_scoped"]] != v["parsed"]:
        problems.append("parsed_scoped_addresses %r differs from parsed_addresses %r" % (v["parsed_scoped"], v["parsed"]))
    want_dns = sorted((1 if len(a) == 4 else 28, a, (v["server"] or v["name"]).lower()) for a in allv)
    if v["dns_addresses"] != want_dns:
        problems.append("dns_addresses() %r differs from the address list %r" % (v["dns_addresses"], want_dns))
    for pr in problems[:1]:
        viol("c18.views", "address_views_disagree", pr)
    # ---- questions: SRV/TXT are asked only while no answer with more than half its TTL is held; A/AAAA go to the known target
    res.mon("c18.questions")
    for e in sim.net.trace[out["mark"]:out["end_mark"]]:
        mm = wire.parse(e["data"], strict=True)
        if mm.is_response:
            continue
        snap = out["send_cache"].get(e["i"])
        if snap is None:
            continue
        t = e["t"]
        res.mon("c18.questions.queries")
        def fresh(lname: str, kind: str) -> bool:
            return any(x[0][0] == kind and x[1] + 500.0 * x[2] > t for x in snap.get(lname, []))
        qset = {(q.name.text().lower(), q.type) for q in mm.questions}
        is_qu = any(q.cls & 0x8000 for q in mm.questions)
        for kind, tnum in (("SRV", 33), ("TXT", 16)):
            asked = (key, tnum) in qset
            if asked and fresh(key, kind):
                viol("c18.questions", "asked_although_answer_held", "%s question sent at +%.1f ms although a %s record with more than half its TTL is cached" % (kind, t - S, kind), qtype=kind)
            if not asked and is_qu and not fresh(key, kind):
                viol("c18.questions", "question_missing", "QU query at +%.1f ms lacks the %s question although no usable %s answer is cached" % (t - S, kind, kind), qtype=kind)
        # the info object's idea of the target host at this instant: last unexpired SRV it was handed
        target = None
        for rd in out["reads_all"][:out["send_reads"].get(e["i"], 0)]:
            if rd["mine"] and rd["ident"][0] == "SRV" and rd["ident"][1] == key and rd["created"] + 1000.0 * rd["ttl"] > rd["now"]:
                target = rd["ident"][2][3]
        want_owner = (target or key)
        for qn, qt_ in qset:
            if qt_ in (1, 28) and qn != want_owner:
                viol("c18.questions", "address_question_for_wrong_host", "address question for %r at +%.1f ms, the SRV target known then is %r" % (qn, t - S, want_owner))
        if is_qu and not ({(want_owner, 1), (want_owner, 28)} <= qset):
            viol("c18.questions", "question_missing", "QU query at +%.1f ms lacks an address question for %r: %r" % (t - S, want_owner, sorted(qset)), qtype="addr")
    # ---- transmissions
    res.mon("c18.transmissions")
    sent = []
    for e in sim.net.trace[out["mark"]:out["end_mark"]]:
        mm = wire.parse(e["data"], strict=True)
        if not mm.is_response:
            sent.append((e["t"], mm))
    cache = out["cache_at_S"]
    def unexpired(lname: str, kind: str) -> List[Tuple]:
        return [x for x in cache.get(lname, []) if x[0][0] == kind and x[1] + 1000.0 * x[2] > S]
    srvs = [x for x in cache.get(key, []) if x[0][0] == "SRV"]
    sufficient = False
    if srvs:
        last = srvs[-1]                       # the most recently added SRV is the one consulted
        if last[1] + 1000.0 * last[2] > S:
            target = last[0][2][3]
            sufficient = bool(unexpired(target, "A") or unexpired(target, "AAAA"))
    if sufficient:
        if sent:
            viol("c18.transmissions", "transmitted_although_cache_sufficient", "cache held an unexpired SRV and address, yet %d query datagram(s) were sent" % len(sent))
        if not result or ret != S:
            viol("c18.transmissions", "cache_path_not_immediate", "cache sufficed but the request returned %r after %.1f ms" % (result, ret - S))
    else:
        if not sent and sc["timeout"] > 0 and not (result and ret == S):
            # a lookup whose first arrival completes it at offset 0 may legitimately send its first query before
            pass
        for k, (t, mm) in enumerate(sent):
            qus = {bool(q.cls & 0x8000) for q in mm.questions}
            want_qu = (k == 0 and sc["forced"] != "QM")
            if qus and qus != {want_qu}:
                viol("c18.transmissions", "question_type_progression", "query %d of the lookup has QU=%r, expected %s (forced %s)" % (k + 1, sorted(qus), want_qu, sc["forced"]))
        if sent and abs(sent[0][0] - S) > 1e-6:
            viol("c18.transmissions", "first_query_not_immediate", "first query sent %.1f ms after the start" % (sent[0][0] - S))
    arrive = "none" if not sc["arrivals"] else ("before-deadline" if sc["arrivals"][0]["off"] < sc["timeout"] else ("at-deadline" if sc["arrivals"][0]["off"] == sc["timeout"] else "after-deadline"))
    res.cls("+".join("%s=%s" % (k, v[:3]) for k, v in sorted(sc["state"].items())), arrive, "t=%d" % sc["timeout"], "forced=%s" % sc["forced"],
            "ok" if result else "fail", "cachepath" if sufficient else "net", "q=%d" % min(len(sent), 4))


# ---------------------------------------------------------------------------------------
# blocking API (real time): Zeroconf.get_service_info / ServiceInfo.request from a non-loop thread


def run_blocking(res: Result, seed: int, long_wait: bool) -> None:
    """The blocking lookup hands the work to the loop thread and waits for it.  Per lookup a fresh instance name is used; its
    SRV/TXT/A records are delivered (in the loop thread) before the call, in a race with the call, some milliseconds into it, or
    never.  Judged: no exception in the calling thread; back by the timeout (+ a generous real-time allowance); success whenever
    the records were processed at least 150 ms before the deadline; cache-only lookups transmit nothing."""
    import threading
    import time
    from ..threadrun import BlockingInstance
    rng = random.Random(seed)
    res.evaluations += 1
    desc: Dict[str, Any] = {"blocking": True, "long_wait": long_wait, "lookups": []}

    def viol(kind: str, detail: str, **sig: Any) -> None:
        res.violation("c18.blocking", kind, detail, dict(sig, family="blocking"), {"seed": seed, "blocking": True, "long_wait": long_wait, "scenario": desc})

    SLACK_OBS, SLACK_VIOL = 400.0, 3000.0
    try:
        with BlockingInstance() as bi:
            zc = bi.zc
            n = 3 if long_wait else 40
            for i in range(n):
                name = "blk%d-%d.%s" % (seed % 1000, i, T)
                hostn = "blk-host%d.local." % i
                recs = [(("SRV", name, (0, 0, 8000 + i, hostn)), 120, True), (("TXT", name, (b"\x04i=%02d" % (i % 100),)), 4500, True),
                        (("A", hostn, (bytes([10, 1, i % 250, 7]),)), 120, True)]
                rng.shuffle(recs)
                data = R.build_response(recs, id_=i)
                mode = rng.choice(["before", "racing", "racing", "racing", "after", "never"])
                timeout = rng.choice([300, 400, 600])
                if long_wait:
                    mode, timeout = ("never", 10000) if i == 0 else ("racing", 400)
                delay = 0.0
                if mode == "before":
                    bi.inject(data)
                    bi.settle(5)
                elif mode == "racing":
                    bi.inject(data)
                    spin = time.perf_counter() + rng.choice([0.0, 0.00002, 0.00005, 0.0001, 0.0002, 0.0005, 0.001])
                    while time.perf_counter() < spin:
                        pass
                elif mode == "after":
                    delay = rng.choice([5.0, 30.0, 100.0])
                    threading.Timer(delay / 1000.0, bi.inject, args=(data,)).start()
                mark = len(bi.net.trace)
                t0 = bi.now_ms()
                raised: Optional[BaseException] = None
                info = None
                try:
                    info = zc.get_service_info(T, name, timeout)
                except BaseException as e:  # noqa
                    raised = e
                t1 = bi.now_ms()
                took = t1 - t0
                res.mon("c18.blocking")
                desc["lookups"].append({"i": i, "mode": mode, "timeout": timeout, "took": round(took, 1), "ok": info is not None})
                if raised is not None:
                    viol("blocking_lookup_raised", "get_service_info(timeout=%d) raised %r after %.0f ms (records: %s)" % (timeout, raised, took, mode), exc_type=type(raised).__name__, mode=mode)
                    continue
                if took > timeout + SLACK_VIOL:
                    viol("returned_after_deadline", "get_service_info(timeout=%d) returned after %.0f ms (records: %s)" % (timeout, took, mode), mode=mode)
                elif took > timeout + SLACK_OBS:
                    res.obs("blocking_lookup_more_than_400ms_over_its_timeout_machine_load")
                processed = [d["t"] for d in bi.net.deliveries if d["data"] == data]
                if mode != "never" and processed and processed[0] <= t0 + timeout - 150.0:
                    if info is None:
                        viol("lookup_failed_although_records_delivered", "get_service_info(timeout=%d) returned None after %.0f ms although the SRV/TXT/A records were "
                             "processed %.1f ms %s the call" % (timeout, took, abs(processed[0] - t0), "before" if processed[0] < t0 else "after"), mode=mode)
                    else:
                        want = (hostn, 8000 + i, b"\x04i=%02d" % (i % 100), [bytes([10, 1, i % 250, 7])])
                        got = (info.server, info.port, info.text, list(info.addresses))
                        if got != want:
                            viol("blocking_lookup_fields", "get_service_info returned %r, records say %r" % (got, want), mode=mode)
                if mode == "never" and info is not None:
                    viol("blocking_lookup_fields", "get_service_info returned an info for a name nobody answered for", mode=mode)
                if mode == "before" and len(bi.net.trace) != mark:
                    viol("transmitted_although_cache_sufficed", "blocking lookup with everything cached put %d datagram(s) on the wire" % (len(bi.net.trace) - mark), mode=mode)
                res.cls("blocking", mode, "timeout=%d" % timeout, "ok" if info is not None else "none")
            bad = [e for e in bi.net.escapes if "was destroyed but it is pending" not in str(e.get("message"))]
            if bad:
                viol("loop_exception", "loop exception handler got %r" % (bad[0],))
    except Exception as e:
        viol("exception", "exception in the blocking-lookup run: %r\n%s" % (e, tb()), exc_type=type(e).__name__)


def run_shard(spec):
    res = Result()
    rng = rng_for("c18", spec["seed"], spec["shard"])
    for _ in range(spec["per"]):
        run_scenario(res, rng.randrange(1 << 30))
    # real-time runs of the blocking API: two shards with short lookups, one shard with a 10 s lookup (thorough: more)
    quick = spec["tier"] == "quick"
    if spec["shard"] in ((1, 2) if quick else range(1, 13)):
        run_blocking(res, rng.randrange(1 << 30), False)
    if spec["shard"] in ((0,) if quick else (0, 13)):
        run_blocking(res, rng.randrange(1 << 30), True)
    return res


def replay(blob):
    res = Result()
    if blob.get("blocking"):
        run_blocking(res, blob["seed"], blob.get("long_wait", False))
        return res
    run_scenario(res, blob["seed"])
    return res
