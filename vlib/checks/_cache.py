"""Shared shard logic for C05 and C06."""
from __future__ import annotations

import itertools

from .. import cache_harness as CH
from ..common import Result, rng_for


def plan(prop, tier, seed):
    if tier == "quick":
        n, per, exh = 16, 450, 0
    else:
        n, per, exh = 64, 12000, 1
    return [{"prop": prop, "seed": seed, "shard": i, "n_shards": n, "per": per, "exh": exh, "tier": tier} for i in range(n)]


def reduced_steps():
    """Reduced vocabulary for the bounded-exhaustive part: 2 records x TTL {0,1,120} x flush, plus clock steps."""
    voc = CH.vocab()
    a = [r for r in voc if r[0] == "A"][:2]
    t = [r for r in voc if r[0] == "TXT"][:1]
    p = [r for r in voc if r[0] == "PTR"][:1]
    steps = []
    for rec in a + t + p:
        for ttl in (0, 1, 120):
            for flush in ((False, True) if rec[0] != "PTR" else (False,)):
                steps.append(("dgram", [(rec, ttl, flush)]))
    # the same record twice in one datagram
    steps.append(("dgram", [(a[0], 120, False), (a[0], 120, False)]))
    steps.append(("dgram", [(a[0], 120, True), (a[0], 2, True)]))
    for ms in (0, 999, 1000, 1001, 9000, 10000, 120000):
        steps.append(("adv", ms))
    return steps


def run_shard(spec):
    res = Result()
    prop = spec["prop"]
    rng = rng_for("cache", spec["seed"], spec["shard"])
    voc = CH.vocab()
    for i in range(spec["per"]):
        h = CH.Harness(res, [prop], seed=i)
        length = rng.choice([4, 8, 12, 20, 40, 60])
        with_listeners = prop == "C06" or i % 4 == 0
        steps = CH.gen_history(rng, length, voc, listeners=with_listeners)
        h.run(steps, n_listeners=rng.choice([0, 1, 1, 2, 4]) if with_listeners else 1, loop_mode=(i % 3 == 2))
        res.cls("mode", "loop" if i % 3 == 2 else "direct")
    if spec["exh"]:
        rs = reduced_steps()
        depth = 3
        idx = 0
        for combo in itertools.product(range(len(rs)), repeat=depth):
            if idx % spec["n_shards"] == spec["shard"]:
                CH.Harness(res, [prop]).run([rs[c] for c in combo], n_listeners=1)
            idx += 1
        res.extra["const_exhaustive_depth"] = depth
        res.extra["const_exhaustive_alphabet"] = len(rs)
    return res


def replay(prop, blob):
    res = Result()
    CH.Harness(res, [prop]).run(CH.history_from_json(blob["history"]), n_listeners=blob.get("n_listeners", 1), loop_mode=blob.get("loop_mode", False))
    return res
