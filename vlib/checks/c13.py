"""C13 - queries carry known answers and are not needlessly repeated."""
from __future__ import annotations

import random
from typing import Any, Dict, List, Optional, Set, Tuple

from .. import respond as R
from .. import simnet, wire
from ..common import Result, rng_for, tb
from ..models import Svc

PROPERTY_ID = "C13"
LEVEL = "exploration"
RULE = ("Three scenario families on a real Zeroconf in virtual time, all queries read off the simulated wire and decoded by the "
        "independent parser. (ka) 0..300 PTR records injected 1 ms apart so that their half-TTL instants straddle the browser's "
        "start-up query instants (ages 49 %, 50 % +-1 ms, 51 %, 99 %, expired): every browser query must list exactly the non-stale "
        "cached PTRs of its type with int(remaining TTL), split over packets with TC on all but the last. (supp) two askers of the "
        "same PTR question - two browsers in one instance started 0/998/999/1000/1001 ms apart (the second sometimes browsing a "
        "second type too, so that only one of its two questions can be suppressed), or a browser plus an external "
        "QM/QU query heard while the host is (or is not) an authoritative responder for the type, with smaller/equal/larger "
        "known-answer lists - checked against a duplicate-question-suppression model (same question within 999 ms whose known "
        "answers are a subset of ours => not sent; QU never suppressed; nothing sent when everything is suppressed). (lookup) "
        "AsyncServiceInfo requests with timeouts 200 ms..10 s, forced QU/QM/None, partially cached records, two concurrent "
        "lookups: first query QU unless forced, later QM, third and later >= 1 s after the previous one, SRV/TXT omitted when a "
        "non-stale answer is cached, A/AAAA asked with exactly the non-stale known answers. Distinct = (family, asker pair, gap "
        "bucket, known-answer relation, forced type, #packets) classes.")
ASSUMPTIONS = ["the random 20..120 ms start delay is read from the trace (first query of each browser) and the model is evaluated at the observed instants"]

T = "_http._tcp.local."
T_OTHER = "_ipp._tcp.local."


def floors(tier):
    q = tier == "quick"
    return {"c13.known_answers": 15000 if q else 1500000, "c13.suppression": 3000 if q else 300000, "c13.progression": 8000 if q else 800000, "c13.second_lookup": 300 if q else 30000}


def plan(tier, seed):
    if tier == "quick":
        n, per = 16, 1600
    else:
        n, per = 64, 24000
    return [{"seed": seed, "shard": i, "per": per, "tier": tier} for i in range(n)]


class Cached:
    __slots__ = ("ident", "created", "ttl")

    def __init__(self, ident: Tuple, created: float, ttl: float):
        self.ident, self.created, self.ttl = ident, created, ttl

    def stale(self, now: float) -> bool:
        return self.created + 500.0 * self.ttl <= now

    def remaining(self, now: float) -> int:
        return int(max(0.0, (self.created + 1000.0 * self.ttl - now) / 1000.0))


def queries_of(sim: simnet.Sim, mark: int, host: str = "H") -> List[Tuple[float, List[wire.Msg]]]:
    """query datagrams of the host grouped into batches sent at the same instant (first sending socket only)"""
    entries = [e for e in sim.net.trace[mark:] if e["host"] == host and e["mcast"]]
    fds = sorted({e["fd"] for e in entries})
    out: List[Tuple[float, List[wire.Msg]]] = []
    for e in entries:
        if e["fd"] != fds[0]:
            continue
        m = wire.parse(e["data"], strict=True)
        if m.is_response:
            continue
        if out and abs(out[-1][0] - e["t"]) < 1e-6:
            out[-1][1].append(m)
        else:
            out.append((e["t"], [m]))
    return out


# ---------------------------------------------------------------------------------------
# family ka


def run_ka(res: Result, seed: int) -> None:
    from zeroconf import ServiceListener
    from zeroconf.asyncio import AsyncServiceBrowser
    rng = random.Random(seed)
    n = rng.choice([0, 1, 5, 40, 120, 300])
    res.evaluations += 1
    desc = {"family": "ka", "n": n}

    def viol(monitor: str, kind: str, detail: str, **sig: Any) -> None:
        res.violation(monitor, kind, detail, dict(sig, family="ka"), {"seed": seed, "family": "ka", "scenario": desc})

    class L(ServiceListener):
        def add_service(self, *a: Any) -> None: pass
        def remove_service(self, *a: Any) -> None: pass
        def update_service(self, *a: Any) -> None: pass

    cached: List[Cached] = []
    out: Dict[str, Any] = {}
    with simnet.Sim(seed & 0xFFFF) as sim:
        async def main():
            # (an instance with several sender sockets sends every datagram of a split query on each of them)
            layout = rng.choice(["single", "split", "split"])
            desc["layout"] = layout
            host = sim.net.add_host("H", "10.0.0.1", "fe80::1" if layout == "split" and rng.random() < 0.5 else None, layout=layout)
            azc = await sim.start_host(host)
            zc = azc.zeroconf
            ttl = rng.choice([1125, 2000, 4500])
            half = 500.0 * ttl
            base = sim.now_ms()
            which = rng.choice([0, 1, 2, 3])                 # which start-up query the boundaries are aimed at
            offs = [0.0, 1000.0, 5000.0, 14000.0][which]
            # records whose half-life instants are spread 1 ms apart over the window in which that query can fall
            # sometimes a second browsed type with its own cached pointers: the known answers of several questions are packed into
            # buckets, each question must still be asked once per query and carry exactly its own known answers
            two_types = rng.random() < 0.35
            desc["two_types"] = two_types
            if two_types:
                for j in range(rng.choice([3, 40, 90])):
                    ident2 = ("PTR", T_OTHER, ("other%03d.%s" % (j, T_OTHER),))
                    sim.net.inject(host, R.build_response([(ident2, ttl * 3, False)], id_=7000 + j), ("10.0.0.9", 5353), delay_ms=float(j % 100))
                    cached.append(Cached(ident2, base + float(j % 100), ttl * 3))
            for j in range(n):
                kind = rng.random()
                if kind < 0.6:
                    delay = float(j % 140)                  # boundary inside [B+offs, B+offs+140]
                    t_ttl = ttl
                elif kind < 0.75:
                    delay, t_ttl = float(j % 140), ttl * 3  # clearly fresh
                elif kind < 0.9:
                    delay, t_ttl = float(j % 140), max(1125, ttl // 2)  # clearly stale (>= 99 %) or expired at query time
                else:
                    delay, t_ttl = float(j % 140), 1       # raised to the PTR floor
                ident = ("PTR", T, ("inst%03d.%s" % (j, T),))
                sim.net.inject(host, R.build_response([(ident, t_ttl, False)], id_=j + 1), ("10.0.0.9", 5353), delay_ms=delay)
                eff = t_ttl if t_ttl >= 1125 else 1125
                cached.append(Cached(ident, base + delay, eff))
            B = base + half - offs - 10.0
            if B < base + 200:
                B = base + 200
            await sim.sleep_until_ms(B)
            out["B"] = sim.now_ms()
            out["mark"] = len(sim.net.trace)
            browser = AsyncServiceBrowser(zc, [T, T_OTHER] if two_types else T, listener=L(), delay=10000)
            await sim.sleep_ms(15000)
            await browser.async_cancel()
            await azc.async_close()

        try:
            sim.run(main())
        except Exception as e:
            viol("c13.known_answers", "exception", "exception: %r\n%s" % (e, tb()), exc_type=type(e).__name__)
            return
        for esc in sim.net.escapes[:1]:
            viol("c13.known_answers", "loop_exception", repr(esc)[:800])
        batches = queries_of(sim, out["mark"])
        # every sender socket carries the same datagrams (a split query is complete on each of them)
        per_fd: Dict[int, List[bytes]] = {}
        for e in sim.net.trace[out["mark"]:]:
            if e["host"] == "H" and e["mcast"]:
                per_fd.setdefault(e["fd"], []).append(e["data"])
        if len(per_fd) > 1:
            res.mon("c13.every_socket")
            ref = max(per_fd.values(), key=len)
            for fd, lst in sorted(per_fd.items()):
                if lst != ref:
                    viol("c13.known_answers", "query_not_complete_on_every_socket", "socket %d sent %d of the %d multicast datagrams another sender socket sent (split "
                         "queries must be complete on every socket)" % (fd, len(lst), len(ref)), sockets=len(per_fd))
                    break
        for bi, (t, msgs) in enumerate(batches[:4]):
            res.mon("c13.known_answers")
            # records whose half-life instant equals the query instant to within float rounding may go either way
            edge = {c.ident for c in cached if abs((c.created + 500.0 * c.ttl) - t) < 1e-6 or abs((c.created + 1000.0 * c.ttl - t) / 1000.0 - round((c.created + 1000.0 * c.ttl - t) / 1000.0)) < 1e-9}
            want = {c.ident: c.remaining(t) for c in cached if not c.stale(t) and c.ident not in edge}
            got: Dict[Tuple, int] = {}
            dup = False
            for m in msgs:
                for r in m.answers:
                    ident = R.ident_of_wire(r)
                    if ident in got:
                        dup = True
                    if ident in edge:
                        res.obs("ka_record_exactly_on_boundary_not_judged")
                        continue
                    got[ident] = r.ttl
            if set(got) != set(want):
                missing = sorted(set(want) - set(got), key=repr)
                extra = sorted(set(got) - set(want), key=repr)
                near = [round((c.created + 500.0 * c.ttl) - t, 3) for c in cached if c.ident in (missing + extra)[:3]]
                viol("c13.known_answers", "known_answer_set_differs", "query %d at +%.3f ms lists %d known answers, cache holds %d non-stale; missing %r extra %r (half-life minus now: %r ms)" % (
                    bi + 1, t - out["B"], len(got), len(want), missing[:2], extra[:2], near), diff=("missing" if missing else "extra"), boundary=bool(near and min(abs(x) for x in near) <= 1.0))
            else:
                bad = [(i, got[i], want[i]) for i in got if got[i] != want[i]]
                if bad:
                    viol("c13.known_answers", "known_answer_ttl", "query %d: %r carries ttl %d, remaining is %d" % (bi + 1, bad[0][0], bad[0][1], bad[0][2]))
            if dup:
                viol("c13.known_answers", "known_answer_repeated", "query %d lists a known answer twice" % (bi + 1))
            asked = [(q.name.text().lower(), q.type) for m in msgs for q in m.questions]
            if len(asked) != len(set(asked)):
                viol("c13.known_answers", "question_asked_twice_in_one_query", "query %d asks %r" % (bi + 1, sorted(asked)[:4]))
            if not desc.get("two_types"):
                for k, m in enumerate(msgs):
                    want_tc = k < len(msgs) - 1
                    if m.tc != want_tc:
                        viol("c13.known_answers", "tc_flag", "query %d packet %d/%d TC=%s" % (bi + 1, k + 1, len(msgs), m.tc))
                    if len(m.questions) and k > 0:
                        viol("c13.known_answers", "question_repeated_in_continuation", "continuation packet repeats the question")
            else:
                # several questions: they may be spread over the packets; every packet but the last of the batch carries TC
                if set(asked) != {(T.lower(), 12), (T_OTHER.lower(), 12)}:
                    viol("c13.known_answers", "question_missing", "query %d of a browser of two types asks %r" % (bi + 1, sorted(asked)))
                # a known answer must travel with (or after) its own question's type: judged as a set per owner name below
            boundary_hits = sum(1 for c in cached if abs((c.created + 500.0 * c.ttl) - t) <= 1.0)
            res.cls("ka", "n=%d" % n, "packets=%d" % min(len(msgs), 4), "q%d" % (bi + 1), "boundary" if boundary_hits else "-", "known=%d" % min(len(want), 3))
        if len(batches) < 4:
            viol("c13.known_answers", "startup_queries_missing", "only %d query batches" % len(batches))
    if res.evaluations % 23 == 1:
        res.sample(desc)


# ---------------------------------------------------------------------------------------
# family supp: two askers of the same PTR question


class History:
    def __init__(self) -> None:
        self.h: Dict[Tuple, Tuple[float, Set[Tuple]]] = {}

    def add(self, q: Tuple, now: float, known: Set[Tuple]) -> None:
        self.h[q] = (now, set(known))

    def suppresses(self, q: Tuple, now: float, known: Set[Tuple]) -> Optional[bool]:
        prev = self.h.get(q)
        if prev is None:
            return False
        than, pk = prev
        if abs((now - than) - 999.0) < 1e-6 and not (pk - known):
            return None   # exactly on the boundary: float rounding of the millisecond clock decides
        if now - than > 999.0:
            return False
        if pk - known:
            return False
        return True


def run_supp(res: Result, seed: int) -> None:
    from zeroconf import DNSQuestionType, ServiceListener
    from zeroconf.asyncio import AsyncServiceBrowser
    rng = random.Random(seed)
    res.evaluations += 1
    # (browser+browser+external: an asker on the link speaks shortly before the first browser's query, the second browser
    #  follows within the window - what the first browser recorded for its own query decides)
    pair = rng.choice(["browser+browser", "browser+browser", "browser+external", "browser+external", "browser+browser+external"])
    gap = rng.choice([0, 998, 999, 1000, 1001, rng.randrange(0, 1200)])
    n_cached = rng.choice([0, 0, 2, 5])
    forced = rng.choice([None, None, "QU", "QM"])
    ext_qu = rng.random() < 0.25
    ext_known = rng.choice(["none", "subset", "equal", "superset"])
    if pair == "browser+browser+external":
        ext_qu, ext_known = False, "superset"
    authoritative = rng.random() < 0.7
    # the external asker may put a second question (another type this host answers for) with its own known answers - all of
    # them records this host holds too - into the same packet, as a browser of several types does
    ext_multi = authoritative and rng.random() < 0.35
    n_old = rng.choice([0, 0, 1, 2])
    # the second browser may browse a second type as well (overlapping, not identical, type sets): its queries carry two
    # questions of which only the shared one can be suppressed
    b2_wide = pair.startswith("browser+browser") and rng.random() < 0.4
    desc = {"family": "supp", "b2_wide": b2_wide, "n_old": n_old, "pair": pair, "gap": gap, "n_cached": n_cached, "forced": forced, "ext_qu": ext_qu, "ext_known": ext_known, "authoritative": authoritative,
            "ext_multi": ext_multi}

    def viol(monitor: str, kind: str, detail: str, **sig: Any) -> None:
        res.violation(monitor, kind, detail, dict(sig, family="supp", pair=pair), {"seed": seed, "family": "supp", "scenario": desc})

    class L(ServiceListener):
        def add_service(self, *a: Any) -> None: pass
        def remove_service(self, *a: Any) -> None: pass
        def update_service(self, *a: Any) -> None: pass

    cached: List[Cached] = []
    out: Dict[str, Any] = {"starts": [], "ext": []}
    with simnet.Sim(seed & 0xFFFF) as sim:
        async def main():
            host = sim.net.add_host("H", "10.0.0.1")
            azc = await sim.start_host(host)
            zc = azc.zeroconf
            # pointers this instance holds only as stale copies (past half of their TTL): it does not list them as known
            # answers, so another asker's list that names them contains something this instance "does not know itself"
            for j in range(n_old):
                ident = ("PTR", T, ("old%d.%s" % (j, T),))
                sim.net.inject_now(host, R.build_response([(ident, 4500, False)], id_=40 + j), ("10.0.0.9", 5353))
                cached.append(Cached(ident, sim.now_ms(), 4500))
            if n_old:
                await sim.sleep_ms(2251_000 + rng.choice([0, 500_000]))
            if authoritative:
                s = Svc(T, "mine." + T, "hostm.local.", 80, b"", [b"\x0a\x00\x00\x01"], [], 120, 4500)
                t = await zc.async_register_service(R.make_info(s), cooperating_responders=True)
                await t
                if ext_multi:
                    s2 = Svc(T_OTHER, "mine2." + T_OTHER, "hostm.local.", 81, b"", [b"\x0a\x00\x00\x01"], [], 120, 4500)
                    t = await zc.async_register_service(R.make_info(s2), cooperating_responders=True)
                    await t
                await sim.sleep_ms(3000)
                # the host's own announcements looped back: its own PTR is now in its cache as well
                rec = zc.cache.get(probe_ptr(("PTR", T, (s.name.lower(),))))
                if rec is not None:
                    cached.append(Cached(("PTR", T, (s.name.lower(),)), rec.created, rec.ttl))
            for j in range(n_cached):
                ident = ("PTR", T, ("peer%d.%s" % (j, T),))
                sim.net.inject_now(host, R.build_response([(ident, 4500, False)], id_=50 + j), ("10.0.0.9", 5353))
                cached.append(Cached(ident, sim.now_ms(), 4500))
            await sim.sleep_ms(rng.choice([0, 10, 1500]))
            qt = {None: None, "QU": DNSQuestionType.QU, "QM": DNSQuestionType.QM}[forced]
            out["mark"] = len(sim.net.trace)
            out["send_cache"] = {}

            def on_tx(entry: Dict[str, Any]) -> None:
                out["send_cache"][entry["i"]] = [(R.ident_of_lib(r), r.created, r.ttl) for r in zc.cache.entries_with_name(T)]
            sim.net.on_transmit = on_tx
            B = sim.now_ms()
            out["B"] = B
            b1 = AsyncServiceBrowser(zc, T, listener=L(), delay=10000, question_type=qt)
            out["starts"].append(B)
            b2 = None
            if pair.startswith("browser+browser"):
                if pair.endswith("external"):
                    # before the first browser's second (QM) query at B + d + 1000, d in 20..120
                    for base_off in (700.0, 4700.0):
                        kn3 = [c.ident for c in cached] + [("PTR", T, ("stranger." + T,))]
                        data3 = R.build_query([(T, 12, False)], [(i, 4000) for i in kn3], id_=0)
                        sim.net.inject(host, data3, ("10.0.0.44", 5353), delay_ms=base_off)
                        out["ext"].append((B + base_off, set(kn3)))
                await sim.sleep_ms(gap)
                out["starts"].append(sim.now_ms())
                b2 = AsyncServiceBrowser(zc, [T, T_OTHER] if b2_wide else T, listener=L(), delay=10000, question_type=qt)
            else:
                # the external asker speaks around the browser's second (QM) query: B + d + 1000, d in 20..120
                for base_off in (1070.0 - gap, 5070.0 - gap):
                    kn = []
                    idents = [c.ident for c in cached]
                    if ext_known == "subset":
                        kn = idents[: max(0, len(idents) - 1)]
                    elif ext_known == "equal":
                        kn = idents
                    elif ext_known == "superset":
                        kn = idents + [("PTR", T, ("stranger." + T,))]
                    if ext_multi:
                        other_known = [(("PTR", T_OTHER, ("mine2." + T_OTHER,)), 4000)]
                        data = R.build_query([(T, 12, ext_qu), (T_OTHER, 12, ext_qu)], [(i, 4000) for i in kn] + other_known, id_=0)
                    else:
                        data = R.build_query([(T, 12, ext_qu)], [(i, 4000) for i in kn], id_=0)
                    at = B + max(1.0, base_off)
                    sim.net.inject(host, data, ("10.0.0.44", 5353), delay_ms=at - sim.now_ms())
                    out["ext"].append((at, set(kn)))
            await sim.sleep_ms(16000)
            await b1.async_cancel()
            if b2 is not None:
                await b2.async_cancel()
            await azc.async_close()

        try:
            sim.run(main())
        except Exception as e:
            viol("c13.suppression", "exception", "exception: %r\n%s" % (e, tb()), exc_type=type(e).__name__)
            return
        for esc in sim.net.escapes[:1]:
            viol("c13.suppression", "loop_exception", repr(esc)[:800])
        # whatever another asker listed, a query of this instance lists exactly what this instance holds with more than half
        # of its TTL left (snapshot of the cache taken at the send instant)
        for e in sim.net.trace[out["mark"]:]:
            snap = out["send_cache"].get(e["i"])
            m, _ = wire.try_parse(e["data"], strict=True)
            if snap is None or m is None or m.is_response or e["host"] != "H":
                continue
            if not any(q.type == 12 and q.name.text() == T for q in m.questions):
                continue
            res.mon("c13.known_answers")
            want = {i for (i, created, ttl) in snap if i[0] == "PTR" and created + 500.0 * ttl > e["t"]}
            got = {i for i in (R.ident_of_wire(r) for r in m.answers) if i[1].lower() == T}
            if got != want:
                viol("c13.known_answers", "known_answers_differ_with_other_asker", "query at +%.0f ms lists %r but the cache holds (more than half TTL left) %r" % (
                    e["t"] - out["B"], sorted(got - want, key=repr)[:2] or sorted(want - got, key=repr)[:2], len(want)),
                    direction="extra" if got - want else "missing")
        analyse_supp(res, sim, desc, out, cached, viol)
    if res.evaluations % 23 == 2:
        res.sample(desc)


def probe_ptr(ident: Tuple) -> Any:
    import zeroconf._dns as d
    return d.DNSPointer(ident[1], 12, 1, 0, ident[2][0], 1.0)


def analyse_supp(res: Result, sim: simnet.Sim, desc: Dict[str, Any], out: Dict[str, Any], cached: List[Cached], viol) -> None:
    B = out["B"]
    forced = desc["forced"]
    batches = [(t, msgs) for t, msgs in queries_of(sim, out["mark"]) if any(q.type == 12 and q.name.text() == T for m in msgs for q in m.questions)]
    sent_times = [t for t, msgs in batches for m in msgs if any(q.type == 12 and q.name.text() == T for q in m.questions)]
    starts: List[float] = out["starts"]
    # ---- first query of each browser: the earliest query in [start+20, start+120] not yet assigned
    firsts: List[float] = []
    pool = list(sent_times)
    first_qu = forced != "QM"
    if not first_qu:
        # with forced QM the first queries themselves can be suppressed: reconstruct from the start times is impossible
        # without the random delay, so only the sent queries are judged for justification below
        pass
    for s in starts:
        taken_slots = [f + off for f in firsts if f is not None for off in (1000.0, 5000.0, 14000.0)]
        cands = [t for t in pool if s + 20.0 - 1e-6 <= t <= s + 120.0 + 1e-6 and not any(abs(t - x) < 1e-6 for x in taken_slots)]
        if cands:
            firsts.append(cands[0])
            pool.remove(cands[0])
        elif any(s + 20.0 - 1e-6 <= t <= s + 120.0 + 1e-6 for t in pool):
            res.obs("supp_case_same_instant_askers_not_judged")
            return
        else:
            firsts.append(None)  # type: ignore[arg-type]
    if first_qu and any(f is None for f in firsts):
        viol("c13.progression", "first_query_missing", "a browser sent no first query within 20..120 ms of its start; queries at %r" % ([round(t - B, 1) for t in sent_times[:8]],))
        return
    if any(f is None for f in firsts):
        res.obs("supp_case_first_query_suppressed_or_unobservable_not_judged")
        return
    # ---- simulate the askers
    hist = History()
    qkey = (T, 12, 1)
    slots: List[Tuple[float, str, int]] = []
    for bi, f in enumerate(firsts):
        for k, off in enumerate((0.0, 1000.0, 5000.0, 14000.0)):
            slots.append((f + off, "browser%d" % bi, k))
    for at, kn in out["ext"]:
        slots.append((at, "external", -1))
    slots.sort(key=lambda s: (s[0], 0 if s[1] == "external" else 1))
    expected_sent: List[Tuple[float, bool]] = []      # (time, qu)
    ambiguous = False
    for i, (t, who, k) in enumerate(slots):
        if any(abs(t - t2) < 1e-6 and who != w2 for (t2, w2, _k) in slots):
            ambiguous = True   # two askers in the very same instant: processing order undefined
        if who == "external":
            kn = [x for (at, x) in out["ext"] if abs(at - t) < 1e-6][0]
            if desc["authoritative"] and not desc["ext_qu"]:
                hist.add(qkey, t, set(kn))
            continue
        qu = (forced == "QU") or (forced is None and k == 0)
        known = {c.ident for c in cached if not c.stale(t)}
        if qu:
            expected_sent.append((t, True))
            continue
        verdict = hist.suppresses(qkey, t, known)
        if verdict is None:
            res.obs("supp_case_exactly_999ms_boundary_not_judged")
            return
        if verdict:
            res.cls("supp", "suppressed", who, "k=%d" % k)
            continue
        hist.add(qkey, t, known)
        expected_sent.append((t, False))
    if ambiguous:
        res.obs("supp_case_same_instant_askers_not_judged")
        return
    res.mon("c13.suppression")
    got = []
    for t, msgs in batches:
        for m in msgs:
            for q in m.questions:
                if q.type == 12 and q.name.text() == T:
                    got.append((t, bool(q.cls & 0x8000)))
    TOL = 0.01
    want_sorted = sorted(expected_sent)
    got_sorted = sorted(got)
    unmatched_want = list(want_sorted)
    extra: List[Tuple[float, bool]] = []
    pairs: List[Tuple[Tuple[float, bool], Tuple[float, bool]]] = []
    for g in got_sorted:
        hit = [w for w in unmatched_want if abs(w[0] - g[0]) <= TOL]
        if hit:
            # prefer the expected entry with the same question type when two askers speak within the tolerance
            same = [w for w in hit if w[1] == g[1]] or hit
            unmatched_want.remove(same[0])
            pairs.append((same[0], g))
        else:
            extra.append(g)
    if unmatched_want or extra:
        viol("c13.suppression", "suppression_differs", "PTR queries sent at %r, model expects %r (needlessly repeated: %r, wrongly withheld: %r)" % (
            [round(t - B, 3) for t, _ in got_sorted], [round(t - B, 3) for t, _ in want_sorted], [round(t - B, 3) for t, _ in extra], [round(t - B, 3) for t, _ in unmatched_want]),
            diff=("needless" if extra and not unmatched_want else ("withheld" if unmatched_want and not extra else "both")), gap=desc["gap"], forced=str(forced))
    res.mon("c13.progression")
    for w, g in pairs:
        if w[1] != g[1]:
            viol("c13.progression", "question_type", "query at +%.0f ms QU=%s expected %s (forced %s)" % (g[0] - B, g[1], w[1], forced))
    gapb = "0" if desc["gap"] == 0 else ("<999" if desc["gap"] < 999 else ("999" if desc["gap"] == 999 else ("1000" if desc["gap"] == 1000 else ">1000")))
    res.cls("supp", desc["pair"] + ("+wide" if desc.get("b2_wide") else ""), "gap=" + gapb, "forced=%s" % forced, desc["ext_known"] if desc["pair"].endswith("external") else "-",
            "auth" if desc["authoritative"] else "noauth", "extqu" if desc["ext_qu"] else "extqm", "cached=%d" % min(desc["n_cached"], 2))


# ---------------------------------------------------------------------------------------
# family lookup


def run_lookup(res: Result, seed: int, forced_scenario: Optional[Dict[str, Any]] = None) -> None:
    from zeroconf import DNSQuestionType
    from zeroconf.asyncio import AsyncServiceInfo
    rng = random.Random(seed)
    res.evaluations += 1
    name = "thing." + T
    server = "thing-host.local."
    timeout = rng.choice([200, 500, 1000, 3000, 10000])
    forced = rng.choice([None, None, "QU", "QM"])
    have = {k: rng.choice(["absent", "fresh", "stale"]) for k in ("SRV", "TXT", "A", "AAAA")}
    if all(v == "fresh" for v in (have["SRV"], have["A"])) or all(v != "absent" for v in (have["SRV"], have["TXT"], have["A"])):
        have["A"] = "absent"
        have["AAAA"] = rng.choice(["absent", "stale"])
        if have["AAAA"] == "stale" and have["SRV"] != "absent":
            have["AAAA"] = "absent"
    second = rng.random() < 0.3
    second_gap = rng.choice([0, 100, 250, 300, 400, 500, 998, 1000, 1500])
    # a cached SRV or TXT that passes half of its TTL 150..900 ms after the lookup starts: its question is not asked by the
    # first queries (answer held) and becomes a new question in a later one
    going_stale = None
    if not second and rng.random() < 0.3:
        going_stale = {"kind": rng.choice(["SRV", "TXT"]), "after": rng.choice([150.0, 300.0, 450.0, 700.0, 900.0])}
        have[going_stale["kind"]] = "absent"
        have["A"] = "absent"
        have["AAAA"] = "absent"
    if forced_scenario is not None:
        timeout, forced, going_stale, second = forced_scenario["timeout"], forced_scenario["forced"], forced_scenario["going_stale"], False
        have = {"SRV": "absent", "TXT": "absent", "A": "absent", "AAAA": "absent"}
    desc = {"family": "lookup", "timeout": timeout, "forced": forced, "have": have, "second": second, "second_gap": second_gap, "going_stale": going_stale}

    def viol(monitor: str, kind: str, detail: str, **sig: Any) -> None:
        res.violation(monitor, kind, detail, dict(sig, family="lookup"), {"seed": seed, "family": "lookup", "scenario": desc})

    idents = {"SRV": ("SRV", name, (0, 0, 80, server)), "TXT": ("TXT", name, (b"\x03a=1",)), "A": ("A", server, (b"\x0a\x00\x00\x05",)),
              "AAAA": ("AAAA", server, (b"\xfe\x80" + b"\0" * 13 + b"\x05",))}
    ttls = {"SRV": 120, "TXT": 4500, "A": 120, "AAAA": 120}
    cached: Dict[str, Cached] = {}
    out: Dict[str, Any] = {}
    with simnet.Sim(seed & 0xFFFF) as sim:
        async def main():
            host = sim.net.add_host("H", "10.0.0.1")
            azc = await sim.start_host(host)
            zc = azc.zeroconf
            t0 = sim.now_ms()
            # stale records are injected first and aged past half their TTL; fresh ones right before the lookup
            for k, v in have.items():
                if v == "stale":
                    sim.net.inject_now(host, R.build_response([(idents[k], ttls[k], True)], id_=3), ("10.0.0.9", 5353))
                    cached[k] = Cached(idents[k], sim.now_ms(), ttls[k])
            if any(v == "stale" for v in have.values()):
                # SRV/A/AAAA have 120 s TTL -> stale after 60 s; TXT 4500 s -> stale after 2250 s
                await sim.sleep_ms(2251_000 if have["TXT"] == "stale" else 61_000)
                for k in list(cached):
                    if cached[k].created + 1000.0 * cached[k].ttl <= sim.now_ms():
                        # expired meanwhile (120 s records when we waited for the TXT): re-inject and age again is not possible: drop
                        del cached[k]
                        have[k] = "expired"
            for k, v in have.items():
                if v == "fresh":
                    sim.net.inject_now(host, R.build_response([(idents[k], ttls[k], True)], id_=4), ("10.0.0.9", 5353))
                    cached[k] = Cached(idents[k], sim.now_ms(), ttls[k])
            await sim.sleep_ms(rng.choice([0, 5]))
            if going_stale is not None:
                # TTL 120 s: half-life 60 s after arrival; arrival placed so that the half-life falls `after` ms after the start
                k = going_stale["kind"]
                sim.net.inject_now(host, R.build_response([(idents[k], 120, True)], id_=5), ("10.0.0.9", 5353))
                cached[k] = Cached(idents[k], sim.now_ms(), 120)
                await sim.sleep_ms(60_000.0 - going_stale["after"])
            qt = {None: None, "QU": DNSQuestionType.QU, "QM": DNSQuestionType.QM}[forced]
            out["mark"] = len(sim.net.trace)
            S = sim.now_ms()
            out["S"] = S
            import asyncio
            info = AsyncServiceInfo(T, name)
            t1 = asyncio.ensure_future(info.async_request(zc, timeout, qt))
            t2 = None
            if second:
                await sim.sleep_ms(second_gap)
                out["S2"] = sim.now_ms()
                info2 = AsyncServiceInfo(T, name)
                t2 = asyncio.ensure_future(info2.async_request(zc, timeout, qt))
            out["r1"] = await t1
            if t2 is not None:
                out["r2"] = await t2
            out["end"] = sim.now_ms()
            await sim.sleep_ms(500)
            await azc.async_close()

        try:
            sim.run(main())
        except Exception as e:
            viol("c13.progression", "exception", "exception: %r\n%s" % (e, tb()), exc_type=type(e).__name__)
            return
        for esc in sim.net.escapes[:1]:
            viol("c13.progression", "loop_exception", repr(esc)[:800])
        S = out["S"]
        batches = queries_of(sim, out["mark"])
        if second and forced != "QM" and batches and abs(batches[0][0] - S) < 1e-6:
            # two interleaved lookups.  The cache does not change between the two starts (nothing answers), so the second lookup
            # needs what the first one needed: its first query - QU, hence never suppressed by what the first lookup asked a
            # moment ago - must leave in the instant it starts, with the same questions.
            res.mon("c13.second_lookup")
            S2 = out["S2"]
            first_qs = {(q.name.text().lower(), q.type) for m in batches[0][1] for q in m.questions if q.cls & 0x8000}
            at = [m for t, msgs in batches if abs(t - S2) < 1e-6 for m in msgs if m.questions and all(q.cls & 0x8000 for q in m.questions)]
            need = 2 if second_gap == 0 else 1
            if first_qs and len(at) < need:
                viol("c13.suppression", "qu_question_not_sent", "second lookup started %d ms after the first (which asked %r by QU): %d QU quer%s in its start instant, "
                     "expected %d - QU questions are never suppressed and the first query of a lookup is QU" % (
                         second_gap, sorted(first_qs)[:4], len(at), "y" if len(at) == 1 else "ies", need), gap=second_gap)
            elif first_qs and {(q.name.text().lower(), q.type) for q in at[-1].questions} != first_qs:
                viol("c13.suppression", "qu_question_not_sent", "second lookup started %d ms after the first: its first query asks %r, the first lookup asked %r with the "
                     "same cache" % (second_gap, sorted((q.name.text().lower(), q.type) for q in at[-1].questions), sorted(first_qs)), gap=second_gap)
        hist = History()
        prev_t: Optional[float] = None
        for bi, (t, msgs) in enumerate(batches):
            for m in msgs:
                res.mon("c13.progression")
                qus = {bool(q.cls & 0x8000) for q in m.questions}
                if not second:
                    want_qu = (bi == 0 and forced != "QM")
                    if qus and qus != {want_qu}:
                        viol("c13.progression", "lookup_question_type", "lookup query %d at +%.0f ms has QU=%r, expected %s (forced %s)" % (bi + 1, t - S, sorted(qus), want_qu, forced))
                    if bi >= 2 and prev_t is not None and t - prev_t < 1000.0 - 1.0:
                        # mechanism of known finding F27: the early query asks something the previous one did not ask (an answer
                        # went stale, or the SRV target became known, in between); repeating the same questions early is not it
                        prev_asked = {(q.name.text().lower(), q.type) for pm in batches[bi - 1][1] for q in pm.questions}
                        now_asked = {(q.name.text().lower(), q.type) for q in m.questions}
                        viol("c13.progression", "lookup_spacing", "lookup query %d only %.0f ms after the previous one (questions not in the previous query: %r)" % (
                            bi + 1, t - prev_t, sorted(now_asked - prev_asked)[:2]),
                            mechanism="new_question_in_early_query" if (bi == 2 and now_asked - prev_asked and not (now_asked & prev_asked)) else "other")
                # known answers per question
                res.mon("c13.known_answers")
                asked = {(q.name.text().lower(), q.type) for q in m.questions}
                for k in ("SRV", "TXT"):
                    c = cached.get(k)
                    key = (name.lower(), 33 if k == "SRV" else 16)
                    if c is not None and not c.stale(t) and key in asked:
                        viol("c13.known_answers", "question_asked_although_answer_cached", "lookup asks %s although a non-stale answer is cached" % k)
                want_known = {}
                for k in ("A", "AAAA"):
                    c = cached.get(k)
                    if c is not None and not c.stale(t) and (server.lower(), 1 if k == "A" else 28) in asked:
                        want_known[c.ident] = c.remaining(t)
                got_known = {R.ident_of_wire(r): r.ttl for r in m.answers}
                if got_known != want_known:
                    viol("c13.known_answers", "lookup_known_answers", "lookup query at +%.0f ms lists %r, expected %r" % (t - S, got_known, want_known))
            prev_t = t
        res.cls("lookup", "timeout=%d" % timeout, "forced=%s" % forced, "second" if second else "single",
                "+".join("%s=%s" % (k, v[:2]) for k, v in sorted(have.items())), "q=%d" % min(len(batches), 5))
    if res.evaluations % 23 == 3:
        res.sample(desc)


WITNESS_LOOKUP_SEED = None      # filled by witnesses(): the going-stale lookup is built explicitly


def witnesses(spec):
    """Stored witness of known finding F27: SRV cached with TTL 120 s, 59.7 s old when the lookup starts (half-life 300 ms
    later), TXT and addresses absent: queries at 0 (QU: TXT/A/AAAA), ~250 ms (QM, same questions) and ~500 ms (QM, the SRV
    question alone - new, hence not suppressed by the instance's own history) - the third one less than 1 s after the second."""
    res = Result()
    run_lookup(res, 4242, forced_scenario={"timeout": 3000, "forced": None, "going_stale": {"kind": "SRV", "after": 300.0}})
    return res


def run_shard(spec):
    res = Result()
    rng = rng_for("c13", spec["seed"], spec["shard"])
    for i in range(spec["per"]):
        seed = rng.randrange(1 << 30)
        [run_ka, run_supp, run_supp, run_lookup][i % 4](res, seed)
    return res


def replay(blob):
    res = Result()
    {"ka": run_ka, "supp": run_supp, "lookup": run_lookup}[blob["family"]](res, blob["seed"])
    return res
