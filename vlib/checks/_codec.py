"""Shared shard logic for C01 and C14 (same generators, different monitors)."""
from __future__ import annotations

from .. import codec_harness as H
from ..common import Result, rng_for

KINDS = ["A", "AAAA", "PTR", "CNAME", "TXT", "SRV", "HINFO", "NSEC"]


def plan(prop, tier, seed):
    if tier == "quick":
        n_shards, rand_cases, over_cases, pads = 16, 1300, 350, "sparse"
    else:
        n_shards, rand_cases, over_cases, pads = 64, 20000, 5000, "full"
    return [{"prop": prop, "seed": seed, "shard": i, "n_shards": n_shards, "rand": rand_cases, "over": over_cases, "pads": pads, "tier": tier}
            for i in range(n_shards)]


def run_shard(spec):
    res = Result()
    prop = spec["prop"]
    rng = rng_for("codec", spec["seed"], spec["shard"])
    props = [prop]
    big = spec["tier"] == "thorough"
    for i in range(spec["rand"]):
        H.run_case(H.gen_random_case(rng, big=big or i % 40 == 0), res, props)
    for _ in range(spec["over"]):
        H.run_case(H.gen_oversize_case(rng), res, props)
    # boundary sweep: shards partition the pad offsets
    if spec["pads"] == "full":
        offs = [o for o in range(-4, 330) if o % spec["n_shards"] == spec["shard"] % spec["n_shards"]] 
        offs = list(range(-4, 330))[spec["shard"] % 8::8]
        kinds = KINDS
        reps = 2
    else:
        offs = list(range(-3, 130))[spec["shard"] % 16::16]
        kinds = [KINDS[(spec["shard"] + j) % len(KINDS)] for j in range(3)]
        reps = 1
    for _ in range(reps):
        for limit in (H.MAX_TYP,):
            for c in H.sweep_cases(rng, kinds, offs, limit):
                H.run_case(c, res, props)
    return res


def replay(prop, blob):
    res = Result()
    H.run_case(H.Case.from_json(blob["case"]), res, [prop])
    return res
