"""C19 - service name validation (vs. an independent RFC 6763 recogniser) and TXT property round trip."""
from __future__ import annotations

import itertools
import random
import re
from typing import Any, Dict, List, Optional, Tuple

from .. import gen
from ..common import Result, rng_for

PROPERTY_ID = "C19"
LEVEL = "exploration"
RULE = ("Names: grammar-generated valid names of all three forms (service, instance.service, sub._sub.service; tcp/udp; bare "
        ".local. in non-strict mode) with every rule violated singly and in pairs (length 15/16, leading/trailing/double hyphen, "
        "no letter, underscore, missing '_', bare '_', _sub with/without subtype, 63/64-byte and dotted / non-ASCII / "
        "control-character instances, 256/257 total length, wrong or missing protocol, wrong case), both strict modes; plus every "
        "string over the alphabet {_ - . a 1 A \\n} up to a bounded length placed before '._tcp.local.' and before '.local.', "
        "plus random strings up to 300 chars. Oracle: independent recogniser written from the documented rules; accept<=>accept, "
        "returned type equal, rejection only by BadTypeInNameException, cached and uncached entry points agree. Names with an "
        "empty label inside the instance part are 'unspecified' (only the exception-type monitor applies). TXT: dictionaries with "
        "str/bytes keys, str/bytes/None/empty values, items up to 255 bytes, duplicate keys after normalisation, plus a sweep over "
        "every item length 1..255 (key-only, key=, key=value; alone, first, last) and every key/value byte value; encoded by "
        "ServiceInfo, decoded by the library and by an independent RFC 6763 section 6 parser, and round-tripped through the wire "
        "codec; one long-lived description object is also handed every TXT value of the run as a received TXT record and its text / "
        "properties / decoded_properties views, read in varying order, must equal those of a fresh object. Distinct = (rule-violation set, strict, form) and (key type, value type, size bucket) classes.")
ASSUMPTIONS = ["keys containing '=' or empty keys, and items longer than 255 bytes, are outside the quantifier"]
EXHAUSTIVE = {"quick": False, "thorough": False}

CONTROL = re.compile(r"[\x00-\x1f\x7f]")


def floors(tier):
    q = tier == "quick"
    return {"c19.name_verdict": 400000 if q else 15000000, "c19.name_exception": 500000 if q else 20000000,
            "c19.txt_independent": 30000 if q else 2000000, "c19.txt_library": 30000 if q else 2000000,
            "c19.txt_views": 30000 if q else 2000000}


def plan(tier, seed):
    if tier == "quick":
        n, per, exh, dicts = 16, 12000, 6, 2500
    else:
        n, per, exh, dicts = 64, 250000, 7, 40000
    return [{"seed": seed, "shard": i, "n_shards": n, "per": per, "exh": exh, "dicts": dicts, "tier": tier} for i in range(n)]


# ---------------------------------------------------------------------------------------
# independent recogniser


def grammar(s: str, strict: bool) -> Tuple[str, Optional[str]]:
    """-> ('accept', type) | ('reject', None) | ('unspecified', None)"""
    if len(s) > 256:
        return ("reject", None)
    if s.endswith("._tcp.local.") or s.endswith("._udp.local."):
        prefix = s[:-12]
        trailer = s[-12:]
        has_proto = True
    elif strict:
        return ("reject", None)
    elif s.endswith(".local."):
        prefix = s[:-7]
        trailer = "local."
        has_proto = False
    else:
        return ("reject", None)
    labels = prefix.split(".")
    service = ""
    if has_proto:
        service = labels[-1]
        rest = labels[:-1]
        if service == "" or service[0] != "_":
            return ("reject", None)
        body = service[1:]
        if body == "":
            return ("reject", None)
        if strict and len(body) > 15:
            return ("reject", None)
        if "--" in body or body[0] == "-" or body[-1] == "-":
            return ("reject", None)
        allowed = "abcdefghijklmnopqrstuvwxyzABCDEFGHIJKLMNOPQRSTUVWXYZ0123456789-" + ("" if strict else "_")
        if any(ch not in allowed for ch in body):
            return ("reject", None)
        if not any(("a" <= ch <= "z") or ("A" <= ch <= "Z") for ch in body):
            return ("reject", None)
    else:
        rest = labels
    if rest == [""] and has_proto:
        # the name starts with '.' directly before the service label
        return ("reject", None)
    if rest and rest[-1] == "_sub":
        rest = rest[:-1]
        if not rest:
            return ("reject", None)
    if any(l == "" for l in rest):
        return ("unspecified", None)
    if rest:
        inst = ".".join(rest)
        try:
            n_bytes = len(inst.encode("utf-8"))
        except UnicodeEncodeError:
            return ("reject", None)      # a lone surrogate has no UTF-8 form: the label has no byte length and cannot be sent
        if n_bytes > 63:
            return ("reject", None)
        if CONTROL.search(inst):
            return ("reject", None)
    return ("accept", service + trailer)


def check_name(s: str, strict: bool, res: Result, tag: str) -> None:
    from zeroconf._exceptions import BadTypeInNameException
    from zeroconf._utils.name import service_type_name
    res.evaluations += 1
    want, wtype = grammar(s, strict)
    replay = {"name": s, "strict": strict}
    outcomes = []
    for label, fn in (("uncached", service_type_name.__wrapped__), ("cached", service_type_name)):
        try:
            outcomes.append(("accept", fn(s, strict=strict)))
        except BadTypeInNameException:
            outcomes.append(("reject", None))
        except Exception as e:  # noqa
            outcomes.append(("error", type(e).__name__))
    res.mon("c19.name_exception")
    got = outcomes[0]
    if got[0] == "error":
        res.violation("c19.name_exception", "wrong_exception_type", "service_type_name(%r, strict=%s) raised %s" % (s, strict, got[1]),
                      {"exc_type": got[1]}, replay)
    if outcomes[0] != outcomes[1]:
        res.violation("c19.name_exception", "cached_differs", "cached %r vs uncached %r for %r" % (outcomes[1], outcomes[0], s), {}, replay)
    if want != "unspecified" and got[0] != "error":
        res.mon("c19.name_verdict")
        if got[0] != want:
            res.violation("c19.name_verdict", "accepts_invalid" if got[0] == "accept" else "rejects_valid",
                          "service_type_name(%r, strict=%s): library %s, documented rules %s" % (s, strict, got[0], want),
                          {"strict": strict, "tag": tag.split(":")[0]}, replay)
        elif want == "accept" and got[1] != wtype:
            res.violation("c19.name_verdict", "wrong_type_returned", "service_type_name(%r) returned %r expected %r" % (s, got[1], wtype),
                          {"strict": strict}, replay)
    res.cls("name", tag, "strict" if strict else "lax", want)
    if res.evaluations % 1999 == 7:
        res.sample({"name": s[:80], "strict": strict, "library": got, "rules": want})


# ---------------------------------------------------------------------------------------
# name generators

LET = "abcdefghijklmnopqrstuvwxyz"


def valid_service(rng: random.Random, strict: bool = True) -> str:
    n = rng.choice([1, 2, 5, 14, 15])
    chars = LET + LET.upper() + "0123456789"
    body = [rng.choice(chars) for _ in range(n)]
    if n >= 3 and rng.random() < 0.4:
        body[rng.randrange(1, n - 1)] = "-"
    if not any(c.isalpha() for c in body):
        body[0] = rng.choice(LET)
    s = "".join(body).replace("--", "-a")
    return "_" + s


MUTATIONS = ["len16", "len17", "lead-hyphen", "trail-hyphen", "double-hyphen", "no-letter", "underscore", "no-underscore",
             "bare-underscore", "space", "nonascii-service", "newline-end", "control-instance", "inst64", "inst63", "inst-dotted",
             "inst-nonascii", "total256", "total257", "proto-upper", "proto-missing", "proto-other", "no-local", "no-trailing-dot",
             "sub", "sub-empty", "sub-only", "leading-dot", "double-dot", "empty-service", "inst-del", "local-upper", "inst-surrogate",
             "sub-surrogate", "inst-unicode-odd", "sub-unicode-odd"]


def build_name(rng: random.Random, muts: List[str]) -> Tuple[str, str]:
    service = valid_service(rng)
    proto = rng.choice(["_tcp", "_udp"])
    domain = "local."
    form = rng.choice(["service", "instance", "instance", "sub"])
    inst = gen.make_label(rng, rng.choice([1, 5, 20, 62]), LET + " ") if form != "service" else None
    sub = None
    if form == "sub":
        sub = inst
        inst = None
    for m in muts:
        body = service[1:]
        if m == "len16":
            service = "_" + (body + "a" * 16)[:16]
        elif m == "len17":
            service = "_" + (body + "b" * 17)[:17]
        elif m == "lead-hyphen":
            service = "_-" + body[1:] if len(body) > 1 else "_-a"
        elif m == "trail-hyphen":
            service = "_" + body[:-1] + "-" if len(body) > 1 else "_a-"
        elif m == "double-hyphen":
            service = "_a--" + body[:5]
        elif m == "no-letter":
            service = "_" + "".join(rng.choice("0123456789") for _ in range(rng.choice([1, 3, 15])))
        elif m == "underscore":
            service = "_" + body[:3] + "_" + body[3:8]
        elif m == "no-underscore":
            service = body
        elif m == "bare-underscore":
            service = "_"
        elif m == "space":
            service = "_" + body[:3] + " " + body[3:6]
        elif m == "nonascii-service":
            service = "_" + body[:3] + "é"
        elif m == "newline-end":
            service = service[:10] + "\n"
        elif m == "control-instance":
            inst = (inst or "x") + rng.choice(["\x00", "\x01", "\x1f", "\x7f", "\n"])
        elif m == "inst-del":
            inst = "a\x7fb"
        elif m == "inst-unicode-odd":
            # legal: only the ASCII control characters are excluded - separators, format, private-use, unassigned and C1 code
            # points are ordinary label text
            inst = rng.choice(["HP\u00a0LaserJet", "\u540d\u3000\u524d", "a\u00adb", "\U0001F468\u200d\U0001F469", "\uf8ff tv", "x\u0085y", "\u2028", "\ufeffbom",
                               "\U000e0001tag", "\u0378"])
        elif m == "sub-unicode-odd":
            sub = rng.choice(["pr\u00a0nt", "\u200dz", "\uf8ff"])
        elif m == "inst-surrogate":
            inst = rng.choice(["\ud800", "a\udfffb", (inst or "x") + "\udc80"])
        elif m == "sub-surrogate":
            sub = "pr\ud83dnt"
        elif m == "inst64":
            inst = gen.make_label(rng, 64, rng.choice([LET, "é" + LET]))
        elif m == "inst63":
            inst = gen.make_label(rng, 63, rng.choice([LET, "é" + LET, "日本" + LET]))
        elif m == "inst-dotted":
            inst = "My.Dotted." + gen.make_label(rng, 5, LET)
        elif m == "inst-nonascii":
            inst = gen.make_label(rng, 20, "éü日本\U0001F600" + LET)
        elif m == "proto-upper":
            proto = proto.upper()
        elif m == "proto-missing":
            proto = ""
        elif m == "proto-other":
            proto = rng.choice(["_sctp", "tcp", "_tcpx"])
        elif m == "no-local":
            domain = rng.choice(["example.", "local", "localx.", "lo.cal."])
        elif m == "local-upper":
            domain = "LOCAL."
        elif m == "no-trailing-dot":
            domain = "local"
        elif m == "sub":
            sub = sub or "printer"
        elif m == "sub-empty":
            sub = ""
        elif m == "sub-only":
            sub, inst = "_sub", None
        elif m == "empty-service":
            service = ""
        elif m == "leading-dot":
            inst = "" if inst is None else "." + inst
        elif m == "double-dot":
            inst = (inst or "x") + "..y"
    parts: List[str] = []
    if inst is not None:
        parts.append(inst)
    if sub is not None:
        parts.extend([sub, "_sub"])
    parts.append(service)
    if proto:
        parts.append(proto)
    name = ".".join(parts) + "." + domain
    for m in muts:
        if m in ("total256", "total257"):
            target = 256 if m == "total256" else 257
            pad = target - len(name)
            if pad > 0:
                # lengthen with extra dotted instance text (each chunk < 63 bytes is irrelevant: instance is one joined label)
                name = ("x" * pad) + name if inst is None else name[:0] + ("x" * pad) + name
    return name, "+".join(muts) if muts else "valid-" + form


def exhaustive_names(maxlen: int, shard: int, n_shards: int):
    alphabet = ["_", "-", ".", "a", "1", "A", "\n"]
    idx = 0
    for ln in range(0, maxlen + 1):
        for combo in itertools.product(alphabet, repeat=ln):
            if idx % n_shards == shard:
                yield "".join(combo)
            idx += 1


# ---------------------------------------------------------------------------------------
# TXT properties


def parse_txt_rfc6763(b: bytes) -> Optional[List[Tuple[bytes, Optional[bytes]]]]:
    """Independent RFC 6763 section 6 parser: ordered (key, value|None) list, first key wins, None on malformed."""
    i = 0
    out: List[Tuple[bytes, Optional[bytes]]] = []
    seen = set()
    while i < len(b):
        ln = b[i]
        item = b[i + 1:i + 1 + ln]
        if len(item) != ln:
            return None
        i += 1 + ln
        if not item:
            continue
        eq = item.find(b"=")
        if eq == 0:
            continue  # missing key: MUST be silently ignored
        if eq < 0:
            key, val = item, None
        else:
            key, val = item[:eq], item[eq + 1:]
        if key in seen:
            continue
        seen.add(key)
        out.append((key, val))
    return out


def normalise(p: Dict[Any, Any]) -> List[Tuple[bytes, Optional[bytes]]]:
    out: List[Tuple[bytes, Optional[bytes]]] = []
    seen = set()
    for k, v in p.items():
        kb = k.encode("utf-8") if isinstance(k, str) else k
        if v is None:
            vb: Optional[bytes] = None
        elif isinstance(v, bytes):
            vb = v
        else:
            vb = str(v).encode("utf-8")
        if kb in seen:
            continue
        seen.add(kb)
        out.append((kb, vb))
    return out


def gen_props(rng: random.Random) -> Tuple[Dict[Any, Any], str]:
    n = rng.choice([0, 1, 1, 2, 3, 8, 20])
    p: Dict[Any, Any] = {}
    tags = set()
    for _ in range(n):
        kt = rng.choice(["str", "bytes"])
        klen = rng.choice([1, 1, 3, 9, 30, 100, 254, 255])
        kalpha = rng.choice([LET, LET + LET.upper(), "é" + LET, LET + " -_."])
        if kt == "str":
            key: Any = gen.make_label(rng, klen, kalpha)
            klen_b = len(key.encode("utf-8"))
        else:
            key = bytes(rng.choice([x for x in range(256) if x != 0x3D]) for _ in range(klen))
            klen_b = klen
        room = 255 - klen_b
        vt = rng.choice(["none", "empty-str", "empty-bytes", "str", "bytes", "str-with-eq", "bytes-binary", "max"])
        if room <= 0:
            vt = "none"
        val: Any
        if vt == "none":
            val = None
        elif vt == "empty-str":
            val = ""
        elif vt == "empty-bytes":
            val = b""
        elif vt == "str":
            val = gen.make_label(rng, min(room - 1, rng.choice([1, 5, 40])), "é" + LET + " ") if room > 1 else ""
        elif vt == "bytes":
            val = gen.make_label(rng, min(room - 1, rng.choice([1, 5, 40])), LET).encode() if room > 1 else b""
        elif vt == "str-with-eq":
            val = ("a=b=" + gen.make_label(rng, 3, LET))[: max(0, room - 1)]
        elif vt == "bytes-binary":
            val = gen.rand_bytes(rng, min(room - 1, rng.choice([1, 8, 60]))) if room > 1 else b""
        else:
            val = b"v" * (room - 1) if room > 1 else b""
        if isinstance(val, str) and len(val.encode("utf-8")) + 1 + klen_b > 255:
            val = ""
        p[key] = val
        tags.add("%s/%s/%s" % (kt, vt, "big" if klen_b + (len(val) if isinstance(val, (bytes, str)) else 0) > 200 else "small"))
    if n >= 2 and rng.random() < 0.3:
        # duplicate key after normalisation (str and bytes spelling of the same key)
        k0 = next(iter(p))
        other = k0.encode("utf-8") if isinstance(k0, str) else None
        if other is not None and other not in p and len(other) <= 250:
            p[other] = b"dup"
            tags.add("dup-key")
    return p, ",".join(sorted(tags)) or "empty"


def sweep_props(rng: random.Random, shard: int, n_shards: int):
    """Every item length 1..255 (the length byte takes every value, among them the codes of '=' and of the other bytes an item
    can contain), as key-only item, key=value item with the separator at the front, the middle and the end, alone and after /
    before other items; every key byte value except '=' and every value byte value in some item."""
    for ln in range(1, 256):
        if ln % n_shards != shard % n_shards:
            continue
        filler = bytes([rng.choice([x for x in range(256) if x != 0x3D])]) if rng.random() < 0.5 else b"k"
        shapes: List[Tuple[Any, Any]] = [(filler * ln, None)]
        if ln >= 2:
            shapes.append((filler * (ln - 1), b""))                       # "key=" : empty value
            shapes.append((b"k", bytes([ln]) * (ln - 2) if ln > 2 else b""))  # value made of the length byte's own value
        if ln >= 3:
            k = rng.randrange(1, ln - 1)
            shapes.append((filler * k, bytes(rng.randrange(256) for _ in range(ln - k - 1))))
            shapes.append(("s" * k, "v" * (ln - k - 1)))
        for key, val in shapes:
            for pos in ("alone", "last", "first"):
                p: Dict[Any, Any] = {}
                if pos == "last":
                    p[b"a"] = b"1"
                p[key] = val
                if pos == "first":
                    p[b"zz"] = None
                yield p, "sweep-len/%s" % pos
    for b in range(256):
        if b % n_shards != shard % n_shards:
            continue
        if b != 0x3D:
            yield {bytes([b]) * 3: b"v", b"t": None}, "sweep-keybyte"
        yield {b"k": bytes([b]) * 4, b"t": bytes([b])}, "sweep-valbyte"


def check_props(p: Dict[Any, Any], tag: str, res: Result) -> None:
    from zeroconf import ServiceInfo
    from zeroconf._protocol.incoming import DNSIncoming
    from zeroconf._protocol.outgoing import DNSOutgoing
    res.evaluations += 1
    type_ = "_http._tcp.local."
    name = "inst." + type_
    replay = {"props": [[repr(k), repr(v)] for k, v in p.items()]}
    want = normalise(p)
    try:
        info = ServiceInfo(type_, name, 80, properties=dict(p), server="h.local.", addresses=[b"\x01\x02\x03\x04"])
        text = info.text
    except Exception as e:
        res.mon("c19.txt_library")
        res.violation("c19.txt_library", "encode_raised", "ServiceInfo(properties=...) raised %r" % (e,), {"exc_type": type(e).__name__}, replay)
        return
    res.mon("c19.txt_independent")
    parsed = parse_txt_rfc6763(text)
    if parsed is None:
        res.violation("c19.txt_independent", "malformed_txt", "TXT bytes are not a sequence of character-strings: %r" % text[:80], {}, replay)
    elif parsed != want:
        res.violation("c19.txt_independent", "txt_differs", "independent parser reads %r, dictionary was %r" % (parsed[:6], want[:6]), {"tag": tag[:40]}, replay)
    # library view: empty value reads back as no value
    want_lib = {k: (v if v else None) for k, v in want}
    res.mon("c19.txt_library")
    for label, obj in (("same-object", info), ("from-text", ServiceInfo(type_, name, 80, properties=text, server="h.local."))):
        try:
            got = obj.properties
        except Exception as e:
            res.violation("c19.txt_library", "decode_raised", "%s .properties raised %r" % (label, e), {}, replay)
            continue
        gotn = {(k.encode("utf-8") if isinstance(k, str) else k): (None if v is None else (v if isinstance(v, bytes) else str(v).encode("utf-8")) or None)
                for k, v in got.items()}
        if label == "same-object":
            # the constructor may keep the caller's dict when it is all-bytes: compare after the same normalisation
            if gotn != want_lib:
                res.violation("c19.txt_library", "properties_differ", "%s: .properties %r expected %r" % (label, list(gotn.items())[:5], list(want_lib.items())[:5]),
                              {"path": label}, replay)
        else:
            if got != want_lib or list(got) != list(want_lib):
                res.violation("c19.txt_library", "properties_differ", "%s: .properties %r expected %r" % (label, list(got.items())[:5], list(want_lib.items())[:5]),
                              {"path": label}, replay)
    # through the wire codec
    out = DNSOutgoing(0x8400)
    out.add_answer_at_time(info.dns_text(), 0)
    pk = out.packets()
    if len(pk) == 1:
        rec = DNSIncoming(pk[0]).answers()
        if len(rec) != 1 or rec[0].text != text:
            res.violation("c19.txt_library", "txt_wire_roundtrip", "TXT record does not survive the wire codec", {}, replay)
        else:
            back = ServiceInfo(type_, name, properties=rec[0].text).properties
            if back != want_lib:
                res.violation("c19.txt_library", "properties_differ", "after wire: %r expected %r" % (list(back.items())[:5], list(want_lib.items())[:5]),
                              {"path": "wire"}, replay)
    check_live_views(text, res, replay)
    res.cls("txt", tag[:60])
    if res.evaluations % 499 == 3:
        res.sample({"props": replay["props"][:4], "text_hex": text[:40].hex()})


_LIVE: Dict[str, Any] = {}


def check_live_views(text: bytes, res: Result, replay: Dict[str, Any]) -> None:
    """One long-lived description object is handed every TXT value of the run as a received TXT record (the way a lookup or a
    browser's info object learns a change); after each, its three views - text, properties, decoded_properties, read in a
    varying order, the decoded view sometimes read beforehand - must be those of a fresh object built from the same bytes."""
    from zeroconf import DNSText, ServiceInfo, current_time_millis
    from zeroconf._updates import RecordUpdate
    type_ = "_http._tcp.local."
    name = "inst." + type_
    live = _LIVE.get("info")
    if live is None:
        live = _LIVE["info"] = ServiceInfo(type_, name, 80, properties={"first": "1"}, server="h.local.")
        _LIVE["n"] = 0
    _LIVE["n"] += 1
    mode = _LIVE.get("force", _LIVE["n"] % 8)
    res.mon("c19.txt_views")
    try:
        if mode & 1:
            live.decoded_properties          # the decoded view exists before the change
        if mode & 4:
            live.properties
        now = current_time_millis()
        live.async_update_records(None, now, [RecordUpdate(DNSText(name, 16, 1, 4500, text, created=now), None)])
        fresh = ServiceInfo(type_, name, 80, properties=text, server="h.local.")
        if mode & 2:
            got_dec, got_props = live.decoded_properties, live.properties
        else:
            got_props, got_dec = live.properties, live.decoded_properties
        want_props, want_dec = fresh.properties, fresh.decoded_properties
    except Exception as e:
        res.violation("c19.txt_views", "view_raised", "long-lived object: %r" % (e,), {"exc_type": type(e).__name__}, replay)
        _LIVE.pop("info", None)
        return
    if live.text != text:
        res.violation("c19.txt_views", "text_not_updated", "long-lived object keeps text %r after a TXT record %r" % (live.text[:40], text[:40]), {}, replay)
    elif got_props != want_props or list(got_props) != list(want_props):
        res.violation("c19.txt_views", "stale_properties", "long-lived object: .properties %r, a fresh object from the same TXT bytes has %r (read order %d)" % (
            list(got_props.items())[:4], list(want_props.items())[:4], mode), {"view": "properties"}, dict(replay, live_mode=mode))
    elif got_dec != want_dec:
        res.violation("c19.txt_views", "stale_properties", "long-lived object: .decoded_properties %r, a fresh object from the same TXT bytes has %r (read order %d)" % (
            list(got_dec.items())[:4], list(want_dec.items())[:4], mode), {"view": "decoded_properties"}, dict(replay, live_mode=mode))


def run_shard(spec):
    res = Result()
    _LIVE.clear()
    rng = rng_for("c19", spec["seed"], spec["shard"])
    for i in range(spec["per"]):
        r = rng.random()
        if r < 0.25:
            muts: List[str] = []
        elif r < 0.7:
            muts = [rng.choice(MUTATIONS)]
        elif r < 0.92:
            muts = rng.sample(MUTATIONS, 2)
        else:
            muts = rng.sample(MUTATIONS, 3)
        if r >= 0.97:
            # random string up to 300 chars
            ln = rng.choice([0, 1, 7, 12, 13, 40, 255, 256, 257, 300])
            alpha = "_-.a1A\n\x01é\ud800" + "tcp" + "local"
            s = "".join(rng.choice(alpha) for _ in range(ln)) + rng.choice(["", "._tcp.local.", ".local.", "local.", "._udp.local.", "_tcp.local."])
            tag = "random"
        else:
            s, tag = build_name(rng, muts)
        for strict in (True, False):
            check_name(s, strict, res, tag)
    for stem in exhaustive_names(spec["exh"], spec["shard"], spec["n_shards"]):
        for suffix, st in (("._tcp.local.", "exh-tcp"), (".local.", "exh-local"), ("._sub._x._udp.local.", "exh-sub")):
            for strict in (True, False):
                check_name(stem + suffix, strict, res, st + ":len%d" % len(stem))
    for _ in range(spec["dicts"]):
        p, tag = gen_props(rng)
        check_props(p, tag, res)
    for p, tag in sweep_props(rng, spec["shard"], spec["n_shards"]):
        check_props(p, tag, res)
    res.extra["const_exhaustive_stem_len"] = spec["exh"]
    return res


def replay(blob):
    res = Result()
    if "name" in blob:
        check_name(blob["name"], blob["strict"], res, "replay")
    else:
        import ast
        p = {ast.literal_eval(k): ast.literal_eval(v) for k, v in blob["props"]}
        for mode in range(8):       # the long-lived object's read order is part of the case
            _LIVE.clear()
            _LIVE["force"] = mode
            check_props(p, "replay", res)
        _LIVE.clear()
    return res
