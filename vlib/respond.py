"""Glue between the reference ResponderModel and the real library / the wire."""
from __future__ import annotations

import random
from typing import Any, Dict, List, Optional, Sequence, Set, Tuple

from . import wire
from .models import ENUM_NAME, Svc

TYPE_NUM = {"A": 1, "PTR": 12, "TXT": 16, "AAAA": 28, "SRV": 33, "NSEC": 47}
KIND_OF = {v: k for k, v in TYPE_NUM.items()}


def make_info(s: Svc):
    from zeroconf import ServiceInfo
    return ServiceInfo(s.type, s.name, s.port, s.weight, s.priority, s.text, s.server, host_ttl=s.host_ttl, other_ttl=s.other_ttl,
                       addresses=list(s.addrs4) + list(s.addrs6))


def ident_of_lib(r: Any) -> Tuple:
    import zeroconf._dns as d
    if isinstance(r, d.DNSPointer):
        return ("PTR", r.name.lower(), (r.alias.lower(),))
    if isinstance(r, d.DNSService):
        return ("SRV", r.name.lower(), (r.priority, r.weight, r.port, r.server.lower()))
    if isinstance(r, d.DNSText):
        return ("TXT", r.name.lower(), (r.text,))
    if isinstance(r, d.DNSAddress):
        return ("A" if r.type == 1 else "AAAA", r.name.lower(), (r.address,))
    if isinstance(r, d.DNSNsec):
        return ("NSEC", r.name.lower(), (tuple(sorted(r.rdtypes)),))
    return ("?", r.name.lower(), (repr(r),))


def ident_of_wire(rr: wire.RR) -> Tuple:
    name = rr.name.text().lower()
    if rr.type == 12:
        return ("PTR", name, (rr.rdata.text().lower(),))
    if rr.type == 33:
        p, w, port, target = rr.rdata
        return ("SRV", name, (p, w, port, target.text().lower()))
    if rr.type == 16:
        return ("TXT", name, (rr.rdata,))
    if rr.type == 1:
        return ("A", name, (rr.rdata,))
    if rr.type == 28:
        return ("AAAA", name, (rr.rdata,))
    if rr.type == 47:
        return ("NSEC", name, (tuple(sorted(rr.rdata[1])),))
    return ("?%d" % rr.type, name, (rr.raw,))


def wire_record_for(ident: Tuple, spelled_owner: Optional[str] = None) -> Tuple[str, int, Any]:
    """identity -> (owner, type, rdata) suitable for wire.build (used to put known answers into queries)."""
    kind, owner, rd = ident
    owner = spelled_owner or owner
    if kind == "PTR":
        return owner, 12, rd[0]
    if kind == "SRV":
        return owner, 33, (rd[0], rd[1], rd[2], rd[3])
    if kind == "NSEC":
        return owner, 47, (owner, list(rd[0]))
    return owner, TYPE_NUM[kind], rd[0]


def build_query(questions: Sequence[Tuple[str, int, bool]], known: Sequence[Tuple[Tuple, int]] = (), id_: int = 0, tc: bool = False,
                authorities: Sequence[Tuple[Tuple, int]] = (), compress: Any = "full") -> bytes:
    """questions: (name, qtype, qu).  known/authorities: (identity, ttl)."""
    qs = [(n, t, 0x8001 if qu else 1) for n, t, qu in questions]
    ans = []
    for ident, ttl in known:
        o, t, rd = wire_record_for(ident)
        ans.append((o, t, 1, ttl, rd))
    auth = []
    for ident, ttl in authorities:
        o, t, rd = wire_record_for(ident)
        auth.append((o, t, 1, ttl, rd))
    return wire.build(id_=id_, flags=0x0200 if tc else 0, questions=qs, answers=ans, authorities=auth, compress=compress)


def build_response(records: Sequence[Tuple[Tuple, int, bool]], id_: int = 0, additionals: Sequence[Tuple[Tuple, int, bool]] = (),
                   spell: Optional[Dict[Tuple, Dict[str, str]]] = None) -> bytes:
    """records: (identity, ttl, flush)."""
    def conv(items):
        out = []
        for ident, ttl, flush in items:
            o, t, rd = wire_record_for(ident)
            out.append((o, t, 0x8001 if flush else 1, ttl, rd))
        return out
    return wire.build(id_=id_, flags=0x8400, answers=conv(records), additionals=conv(additionals))


# ---------------------------------------------------------------------------------------
# service pool generation

TYPES = ["_http._tcp.local.", "_ipp._tcp.local.", "_printer._sub._http._tcp.local.", "_HTTP._tcp.local.", "_osc._udp.local."]
BASE_OF = {"_printer._sub._http._tcp.local.": "_http._tcp.local."}
HOSTS = ["h1.local.", "H2.local.", "h3.local.", "Shared.local.", "Maß.local."]
LABELS = ["alpha", "Beta", "gamma delta", "épsilon", "My.Dotted", "z", "Straße µ", "ſigmaς"]
V4 = [bytes([10, 0, 0, i]) for i in range(1, 9)]
V6 = [b"\xfe\x80" + b"\0" * 13 + bytes([i]) for i in range(1, 9)]


def gen_service(rng: random.Random, name: Optional[str] = None, type_: Optional[str] = None, min_ttl: int = 2) -> Svc:
    type_ = type_ or rng.choice(TYPES)
    base = BASE_OF.get(type_, type_)
    if name is None:
        name = rng.choice(LABELS) + "." + base
    server = rng.choice(HOSTS) if rng.random() < 0.8 else name
    fam = rng.choice(["v4", "v4", "v6", "dual", "dual", "multi"])
    a4: List[bytes] = []
    a6: List[bytes] = []
    if fam in ("v4", "dual"):
        a4 = [rng.choice(V4)]
    if fam in ("v6", "dual"):
        a6 = [rng.choice(V6)]
    if fam == "multi":
        a4 = rng.sample(V4, rng.choice([2, 3]))
        a6 = rng.sample(V6, rng.choice([0, 1, 2]))
    if rng.random() < 0.6:
        host_ttl, other_ttl = 120, 4500
    else:
        host_ttl = rng.choice([min_ttl, 3, 10, 60, 121, 10000])
        other_ttl = rng.choice([min_ttl, 5, 100, 4501, 10000])
        host_ttl, other_ttl = max(host_ttl, min_ttl), max(other_ttl, min_ttl)
    text = rng.choice([b"", b"\x03a=1", b"\x03a=2\x04path", b"\x00"])
    return Svc(type_, name, server, rng.choice([80, 8080, 65535, 1]), text, a4, a6, host_ttl, other_ttl,
               rng.choice([0, 0, 10]), rng.choice([0, 0, 5]))


def spell(rng: random.Random, label: str) -> str:
    """A host or instance label as applications spell them: mostly plain, sometimes capitalised / upper case / with letters whose
    lower(), upper() and casefold() forms differ in length or content (names are compared with str.lower() by the library)."""
    r = rng.random()
    if r < 0.55:
        return label
    if r < 0.72:
        return label.capitalize()
    if r < 0.82:
        return label.upper()
    if r < 0.92:
        return label + "ß"
    return "µ" + label.capitalize() + "é"


def last_seen_copy(cache: Any, probe: Any) -> Any:
    """The cached copy of a record as last seen on the link.  An AAAA record heard on an IPv6 socket is cached with the scope
    id of the receiving interface, so it is looked up by name and address (most recently received copy), not by the identity
    that includes the scope."""
    rec = cache.get(probe)
    if rec is None and getattr(probe, "type", None) == 28:
        for r in cache.get_all_by_details(probe.name, 28, 1):
            if r.address == probe.address and (rec is None or r.created > rec.created):
                rec = r
    return rec
