"""pytest plugin: the repository's own test suite as an extra workload for the invariant monitors.

Loaded with `-p vlib.suite_monitors` (PYTHONPATH=/verif).  Nothing in the repository is edited: the monitors are wrappers
installed on classes of the working tree when the session starts.  Every wrapper calls the original and only *observes*
(arguments, return value, the object's state afterwards); a monitor hit is recorded with the id of the running test and
never raised into the test.  At session end the counters and hits are written to $VERIF_SUITE_OUT as JSON.

Monitors (each one is the invariant part of a property, i.e. what must hold for *every* use of the code, not only for the
generated workloads of the property's own check):

  c05.structure   after every DNSCache mutation entry point: no empty bucket, key object is value object, records sit in
                  the bucket of their lower-cased name, service_cache mirrors exactly the cached SRV records
  c14.datagram    every list returned by DNSOutgoing.packets(): each datagram <= 8966 bytes, <= 1460 unless it carries a
                  single entry, header counts equal the entries an independent parser finds and cover the datagram exactly,
                  TC on all but the last datagram of a query and never on a response, and over the whole list each section
                  carries as many entries as the message holds
  c02.decode      every DNSIncoming constructed and every answers() call: no exception; decoded names <= 253 characters
  c20.identity    every record handed to DNSCache.async_add_records: equal to itself, hash stable, and found by
                  async_get_unique / get afterwards (unless its TTL is 0)
"""
from __future__ import annotations

import json
import os
import struct
import threading
from typing import Any, Dict, List

_LOCK = threading.Lock()
STATE: Dict[str, Any] = {"monitors": {}, "hits": [], "tests": 0, "installed": False}
MAX_HITS = 60


def _mon(name: str, n: int = 1) -> None:
    with _LOCK:
        STATE["monitors"][name] = STATE["monitors"].get(name, 0) + n


def _hit(monitor: str, kind: str, detail: str) -> None:
    with _LOCK:
        if len(STATE["hits"]) < MAX_HITS:
            STATE["hits"].append({"monitor": monitor, "kind": kind, "detail": detail[:1500],
                                  "test": os.environ.get("PYTEST_CURRENT_TEST", "?")})


def install() -> None:
    if STATE["installed"]:
        return
    STATE["installed"] = True
    from vlib import cache_harness, wire
    from vlib.common import Result
    import zeroconf._cache as zcache
    import zeroconf._dns as d
    import zeroconf._protocol.incoming as zin
    import zeroconf._protocol.outgoing as zout

    dummy = Result()
    tampered: set = STATE.setdefault("tampered", set())

    # ---- c05.structure / c20.identity
    def check_cache(cache: Any, where: str) -> None:
        _mon("c05.structure")

        def viol(monitor: str, kind: str, detail: str, **kw: Any) -> None:
            if kind == "service_cache_mismatch" and id(cache) in tampered:
                # the suite's helper tests._clear_cache() empties DNSCache.cache behind the cache's back and leaves
                # service_cache alone; from then on the mirror property is the test's doing, not the library's
                _mon("c05.structure.skipped_after_test_helper_cleared_cache")
                return
            _hit("c05.structure", kind, detail)
        try:
            cache_harness.structural_invariant(cache, viol, where, dummy)
        except Exception as e:  # noqa - the monitor must never disturb the test
            _hit("c05.structure", "monitor_error", "%s: %r" % (where, e))

    def wrap_cache(name: str) -> None:
        orig = getattr(zcache.DNSCache, name)

        def wrapper(self: Any, *a: Any, **k: Any) -> Any:
            if name == "async_add_records":
                a = (list(a[0]),) + tuple(a[1:]) if a else a
            r = orig(self, *a, **k)
            check_cache(self, name)
            if name == "async_add_records" and a:
                for rec in a[0]:
                    _mon("c20.identity")
                    try:
                        if not (rec == rec) or hash(rec) != hash(rec):
                            _hit("c20.identity", "not_reflexive", repr(rec))
                        if isinstance(rec, d.DNSRecord) and rec.ttl:
                            got = self.async_get_unique(rec) if isinstance(rec, (d.DNSAddress, d.DNSHinfo, d.DNSPointer, d.DNSText, d.DNSService)) else self.get(rec)
                            if got is None or not (got == rec):
                                _hit("c20.identity", "added_record_not_found", "%r added but exact lookup returns %r" % (rec, got))
                    except Exception as e:  # noqa
                        _hit("c20.identity", "monitor_error", repr(e))
            return r
        wrapper.__name__ = name
        setattr(zcache.DNSCache, name, wrapper)

    for n in ("async_add_records", "async_remove_records", "async_expire", "async_mark_unique_records_older_than_1s_to_expire"):
        wrap_cache(n)

    # ---- c14.datagram
    orig_packets = zout.DNSOutgoing.packets

    def packets(self: Any) -> List[bytes]:
        first = self.state != zout.STATE_FINISHED
        preloaded = first and bool(self.data)       # a test put bytes into the message by hand: not the builder's output
        r = orig_packets(self)
        if not first:
            return r
        if preloaded:
            _mon("c14.datagram.skipped_hand_made_data")
            return r
        if (zout._MAX_MSG_ABSOLUTE, zout._MAX_MSG_TYPICAL) != (8966, 1460):
            _mon("c14.datagram.skipped_limits_patched_by_test")
            return r
        if any(len(e.name) > 253 for e in self.questions) or any(len(rec.name) > 253 for rec, _ in list(self.answers)) :
            _mon("c14.datagram.skipped_name_over_253")      # outside the quantifier of C01/C14
            return r
        try:
            _mon("c14.datagram", len(r))
            is_query = not (self.flags & 0x8000)
            totals = [0, 0, 0, 0]
            for i, p in enumerate(r):
                hdr = struct.unpack(">HHHHHH", p[:12])
                nent = sum(hdr[2:])
                if len(p) > 8966:
                    _hit("c14.datagram", "over_absolute_limit", "datagram %d of %d is %d bytes" % (i, len(r), len(p)))
                elif len(p) > 1460 and nent > 1:
                    _hit("c14.datagram", "over_typical_with_many_entries", "datagram %d is %d bytes with %d entries" % (i, len(p), nent))
                want_tc = is_query and i < len(r) - 1
                if bool(hdr[1] & 0x0200) != want_tc and not (self.flags & 0x0200):
                    _hit("c14.datagram", "tc_flag", "datagram %d/%d query=%s TC=%s" % (i, len(r), is_query, bool(hdr[1] & 0x0200)))
                m, err = wire.try_parse(p, strict=False)
                if m is None:
                    _hit("c14.datagram", "not_parseable", "datagram %d: %s" % (i, err))
                else:
                    got = (len(m.questions), len(m.answers), len(m.authorities), len(m.additionals))
                    if got != tuple(hdr[2:]) or m.size != len(p):
                        _hit("c14.datagram", "counts_vs_content", "datagram %d: header %r, parsed %r, %d of %d bytes" % (i, hdr[2:], got, m.size, len(p)))
                for k in range(4):
                    totals[k] += hdr[2 + k]
            want = [len(self.questions), len(self.answers), len(self.authorities), len(self.additionals)]
            if r and totals != want:
                _hit("c14.datagram", "accounting", "message holds %r entries per section, datagrams carry %r" % (want, totals))
        except Exception as e:  # noqa
            _hit("c14.datagram", "monitor_error", repr(e))
        return r

    zout.DNSOutgoing.packets = packets  # type: ignore[method-assign]

    # ---- c02.decode
    orig_init = zin.DNSIncoming.__init__

    def init(self: Any, data: bytes, *a: Any, **k: Any) -> None:
        _mon("c02.decode")
        try:
            orig_init(self, data, *a, **k)
        except BaseException as e:
            if isinstance(data, (bytes, bytearray)):
                _hit("c02.decode", "constructor_raised", "%s for %d bytes %s" % (type(e).__name__, len(data), bytes(data[:60]).hex()))
            raise
        try:
            for q in self.questions:
                if len(q.name) > 253:
                    _hit("c02.decode", "name_too_long", "question name of %d characters" % len(q.name))
        except Exception as e:  # noqa
            _hit("c02.decode", "monitor_error", repr(e))

    zin.DNSIncoming.__init__ = init  # type: ignore[method-assign]
    orig_answers = zin.DNSIncoming.answers

    def answers(self: Any) -> Any:
        _mon("c02.answers")
        try:
            r = orig_answers(self)
        except BaseException as e:
            _hit("c02.decode", "answers_raised", "%s for %d bytes" % (type(e).__name__, len(self.data)))
            raise
        try:
            for rec in r:
                for nm in (rec.name, getattr(rec, "alias", ""), getattr(rec, "server", ""), getattr(rec, "next_name", "")):
                    if nm and len(nm) > 253:
                        _hit("c02.decode", "name_too_long", "%d characters in %r" % (len(nm), type(rec).__name__))
        except Exception as e:  # noqa
            _hit("c02.decode", "monitor_error", repr(e))
        return r

    zin.DNSIncoming.answers = answers  # type: ignore[method-assign]


def pytest_configure(config: Any) -> None:
    install()


def pytest_collection_finish(session: Any) -> None:
    """tests/__init__.py has a helper that clears DNSCache.cache directly; remember which caches it touched."""
    import sys
    try:
        import tests as tpkg
    except Exception:  # noqa
        return
    orig = getattr(tpkg, "_clear_cache", None)
    if orig is None:
        return
    tampered = STATE.setdefault("tampered", set())

    def _clear_cache(zc: Any) -> None:
        tampered.add(id(zc.cache))
        orig(zc)
    for mod in list(sys.modules.values()):
        if mod is not None and getattr(mod, "_clear_cache", None) is orig:
            setattr(mod, "_clear_cache", _clear_cache)


def pytest_runtest_setup(item: Any) -> None:
    with _LOCK:
        STATE["tests"] += 1


def pytest_sessionfinish(session: Any, exitstatus: Any) -> None:
    out = os.environ.get("VERIF_SUITE_OUT")
    if out:
        with _LOCK:
            data = {"monitors": STATE["monitors"], "hits": STATE["hits"], "tests": STATE["tests"], "exitstatus": int(exitstatus)}
        with open(out, "w") as f:
            json.dump(data, f, indent=1)
