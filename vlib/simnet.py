"""Deterministic virtual-time link running real Zeroconf instances.

Only three things are replaced, all from the outside:
  * zeroconf._utils.time.time           -> shim whose monotonic() is the virtual clock
  * zeroconf._core.create_sockets       -> hands out FakeSockets for the host being created
  * the event loop                      -> VLoop (SelectorEventLoop with a selector that advances the clock)
Everything else (timers, tasks, futures, the library) is the real code.
"""
from __future__ import annotations

import asyncio
import heapq
import random
import selectors
import socket
import sys
import types
from typing import Any, Callable, Dict, List, Optional, Sequence, Tuple

MDNS4 = "224.0.0.251"
MDNS6 = "ff02::fb"
PORT = 5353


class Deadlock(Exception):
    """The loop has nothing scheduled and nothing ready: virtual time cannot advance."""


class Livelock(Exception):
    """The loop keeps running callbacks without virtual time ever advancing (a busy spin in real time)."""


LIVELOCK_ITERATIONS = 200_000


class VClock:
    def __init__(self, start: float = 100.0):
        self.t = start

    def ms(self) -> float:
        return self.t * 1000.0


class _TimeShim:
    """Stands in for the `time` module inside zeroconf._utils.time."""

    def __init__(self, clock: VClock, real: Any):
        self._clock = clock
        self._real = real

    def monotonic(self) -> float:
        return self._clock.t

    def __getattr__(self, name: str) -> Any:
        return getattr(self._real, name)


class _VSelector(selectors.BaseSelector):
    def __init__(self, clock: VClock):
        self.clock = clock
        self.loop: Optional["VLoop"] = None
        self._map: Dict[Any, selectors.SelectorKey] = {}

    def register(self, fileobj, events, data=None):
        key = selectors.SelectorKey(fileobj, fileobj if isinstance(fileobj, int) else fileobj.fileno(), events, data)
        self._map[key.fd] = key
        return key

    def unregister(self, fileobj):
        fd = fileobj if isinstance(fileobj, int) else fileobj.fileno()
        return self._map.pop(fd)

    def modify(self, fileobj, events, data=None):
        self.unregister(fileobj)
        return self.register(fileobj, events, data)

    def get_key(self, fileobj):
        fd = fileobj if isinstance(fileobj, int) else fileobj.fileno()
        return self._map[fd]

    def get_map(self):
        return self._map

    def close(self):
        self._map.clear()

    def select(self, timeout=None):
        loop = self.loop
        if timeout is None:
            raise Deadlock("nothing scheduled at t=%.6f" % self.clock.t)
        if timeout > 0:
            if loop is not None and loop._scheduled:
                when = loop._scheduled[0]._when
                if when > self.clock.t:
                    self.clock.t = when
            else:
                self.clock.t += timeout
        return []


class _SeqTimerHandle(asyncio.TimerHandle):
    """Timer handle ordered by (when, scheduling sequence).  asyncio orders timers by `when` only, so callbacks due at the
    same instant run in an order that depends on the shape of the heap, i.e. on unrelated timers; in virtual time exact ties
    are common, and runs that must be comparable event by event (C16) need the tie broken the same way every time: FIFO."""

    __slots__ = ("_seq",)

    def __lt__(self, other: Any) -> bool:
        if isinstance(other, _SeqTimerHandle):
            return (self._when, self._seq) < (other._when, other._seq)
        return NotImplemented

    def __le__(self, other: Any) -> bool:
        if isinstance(other, _SeqTimerHandle):
            return (self._when, self._seq) <= (other._when, other._seq)
        return NotImplemented

    def __gt__(self, other: Any) -> bool:
        if isinstance(other, _SeqTimerHandle):
            return (self._when, self._seq) > (other._when, other._seq)
        return NotImplemented

    def __ge__(self, other: Any) -> bool:
        if isinstance(other, _SeqTimerHandle):
            return (self._when, self._seq) >= (other._when, other._seq)
        return NotImplemented

    __hash__ = asyncio.TimerHandle.__hash__


class VLoop(asyncio.SelectorEventLoop):
    def __init__(self, clock: VClock, net: "Net"):
        self._timer_seq = 0
        sel = _VSelector(clock)
        super().__init__(sel)
        sel.loop = self
        self.vclock = clock
        self.net = net
        self._clock_resolution = 1e-9
        self.iterations = 0
        self._spin_t = -1.0
        self._spin_n = 0

    def time(self) -> float:
        return self.vclock.t

    def _write_to_self(self) -> None:  # no real I/O wake-ups are needed
        return

    def call_at(self, when, callback, *args, context=None):  # type: ignore[override]
        self._check_closed()
        # A real clock moves on while code runs; the virtual clock only moves when a timer is due.  Code that waits "until
        # next_time" in a loop (async_check_service) can be left with a remainder of 1e-10 ms by float rounding: the timer for it
        # is due at once, the clock does not move, the remainder stays - a livelock that no real run can have.  A positive
        # delay below one microsecond therefore takes one microsecond of virtual time.
        delta = when - self.vclock.t
        if 0.0 < delta < 1e-6:
            when = self.vclock.t + 1e-6
        timer = _SeqTimerHandle(when, callback, args, self, context)
        self._timer_seq += 1
        timer._seq = self._timer_seq
        heapq.heappush(self._scheduled, timer)
        timer._scheduled = True
        return timer

    def _run_once(self) -> None:
        self.iterations += 1
        if self.vclock.t != self._spin_t:
            self._spin_t = self.vclock.t
            self._spin_n = 0
        else:
            self._spin_n += 1
            if self._spin_n > LIVELOCK_ITERATIONS:
                self._spin_n = 0
                raise Livelock("%d loop iterations at virtual time %.6f" % (LIVELOCK_ITERATIONS, self.vclock.t))
        super()._run_once()

    async def create_datagram_endpoint(self, protocol_factory, local_addr=None, remote_addr=None, *, sock=None, **kw):
        if not isinstance(sock, FakeSocket):
            raise RuntimeError("VLoop only serves FakeSockets")
        protocol = protocol_factory()
        transport = FakeTransport(self, sock, protocol, self.net)
        sock.transport = transport
        sock.protocol = protocol
        protocol.connection_made(transport)
        return transport, protocol


class FakeSocket:
    _next_fd = 1000

    def __init__(self, host: "SimHost", family: int, ip: str, role: str, scope: int = 0):
        FakeSocket._next_fd += 1
        self._fd = FakeSocket._next_fd
        self.host = host
        self.family = family
        self.ip = ip           # '' = wildcard
        self.role = role       # 'listen' | 'respond' | 'both'
        self.scope = scope
        self.link = getattr(host, "link", 0)   # the link this socket's interface is attached to
        self.transport: Optional["FakeTransport"] = None
        self.protocol: Any = None
        self.closed = False

    def fileno(self) -> int:
        return self._fd

    def getsockname(self) -> Tuple:
        if self.family == socket.AF_INET6:
            return (self.ip or "::", PORT, 0, self.scope)
        return (self.ip or "0.0.0.0", PORT)

    def setblocking(self, flag: bool) -> None:
        pass

    def close(self) -> None:
        self.closed = True

    def __repr__(self) -> str:
        return "<FakeSocket %s %s %s fd=%d>" % (self.host.name, self.role, self.ip or "*", self._fd)


class FakeTransport(asyncio.DatagramTransport):
    def __init__(self, loop: VLoop, sock: FakeSocket, protocol: Any, net: "Net"):
        super().__init__(extra={"socket": sock, "sockname": sock.getsockname()})
        self._vloop = loop
        self.sock = sock
        self.protocol = protocol
        self.net = net
        self.closing = False
        self.dead = False

    def sendto(self, data: bytes, addr: Any = None) -> None:
        if self.dead:
            # what a real transport does once its socket is closed: OSError -> protocol.error_received
            self.net.log_dead_send(self.sock, bytes(data), addr)
            try:
                self.protocol.error_received(OSError(9, "Bad file descriptor"))
            except Exception as e:  # noqa
                self.net.escapes.append({"t": self._vloop.vclock.ms(), "where": "error_received", "exc": repr(e)})
            return
        self.net.transmit(self.sock, bytes(data), addr)

    def is_closing(self) -> bool:
        return self.closing

    def close(self) -> None:
        if self.closing:
            return
        self.closing = True
        self._vloop.call_soon(self._lost)

    def abort(self) -> None:
        self.close()

    def _lost(self) -> None:
        self.dead = True
        self.sock.closed = True
        try:
            self.protocol.connection_lost(None)
        except Exception as e:  # noqa
            self.net.escapes.append({"t": self._vloop.vclock.ms(), "where": "connection_lost", "exc": repr(e)})


class SimHost:
    """One machine on the link.  layout 'single': one socket listens and sends (InterfaceChoice.Default);
    'split': wildcard listen socket (multicast only) + one respond socket per address (send + unicast receive).
    `link` is the link the host is attached to (all hosts are on link 0 unless said otherwise); a 'split' host given `ip6b`
    has a second IPv6 interface (scope id 3) on link 1 - a multi-homed machine whose wildcard listen socket has joined the
    group on both links and which has one sender socket per interface."""

    def __init__(self, net: "Net", name: str, ip4: Optional[str], ip6: Optional[str] = None, layout: str = "single",
                 ip6b: Optional[str] = None, link: int = 0):
        self.net = net
        self.name = name
        self.ip4 = ip4
        self.ip6 = ip6
        self.ip6b = ip6b
        self.link = link
        self.links = {link} | ({1} if ip6b else set())
        self.layout = layout
        self.listen: List[FakeSocket] = []
        self.respond: List[FakeSocket] = []
        self.zc: Any = None
        self.azc: Any = None
        self.partitioned = False

    def make_sockets(self) -> Tuple[Optional[FakeSocket], List[FakeSocket]]:
        fam = socket.AF_INET if self.ip4 else socket.AF_INET6
        if self.layout == "single":
            s = FakeSocket(self, fam if not (self.ip4 and self.ip6) else socket.AF_INET6, "", "both", scope=2 if not self.ip4 else 0)
            if self.ip4 and self.ip6:
                s.dual = True  # type: ignore[attr-defined]
            self.listen = [s]
            self.respond = [s]
            return s, [s]
        listen_fam = socket.AF_INET6 if self.ip6 else socket.AF_INET
        ls = FakeSocket(self, listen_fam, "", "listen")
        if self.ip4 and self.ip6:
            ls.dual = True  # type: ignore[attr-defined]  # IPV6_V6ONLY disabled: receives IPv4 traffic as well
        self.listen = [ls]
        self.respond = []
        if self.ip4:
            self.respond.append(FakeSocket(self, socket.AF_INET, self.ip4, "respond"))
        if self.ip6:
            self.respond.append(FakeSocket(self, socket.AF_INET6, self.ip6, "respond", scope=2))
        if self.ip6b:
            s2 = FakeSocket(self, socket.AF_INET6, self.ip6b, "respond", scope=3)
            s2.link = 1
            self.respond.append(s2)
        return ls, list(self.respond)

    def all_sockets(self) -> List[FakeSocket]:
        seen: List[FakeSocket] = []
        for s in self.listen + self.respond:
            if s not in seen:
                seen.append(s)
        return seen

    def src_ip_for(self, sock: FakeSocket, v6: bool) -> str:
        if sock.ip:
            return sock.ip
        return (self.ip6 if v6 else self.ip4) or self.ip4 or self.ip6 or "0.0.0.0"


class Endpoint:
    """An external (non-library) socket on the link: an injector / legacy querier.  Records what it receives."""

    def __init__(self, net: "Net", ip: str, port: int):
        self.net = net
        self.ip = ip
        self.port = port
        self.received: List[Dict[str, Any]] = []


class Policy:
    """Delivery policy: decides per (datagram, receiver) delay / drop / duplication."""

    def __init__(self, rng: Optional[random.Random] = None, max_delay_ms: float = 0.0, dup_p: float = 0.0,
                 drop_index: Optional[int] = None, drop_receiver: Optional[str] = None, self_delay_ms: Optional[float] = None):
        self.rng = rng or random.Random(0)
        self.max_delay_ms = max_delay_ms
        self.dup_p = dup_p
        self.drop_index = drop_index       # 0-based index into the sequence of transmitted datagrams
        self.drop_receiver = drop_receiver  # host name: drop only for that receiver; None: for all receivers
        self.self_delay_ms = self_delay_ms

    fixed_unicast_ms: Optional[float] = None     # deterministic witnesses: fixed delay for unicast / multicast deliveries
    fixed_multicast_ms: Optional[float] = None
    current_is_multicast: bool = True

    def plan(self, tx_index: int, sender: Optional[SimHost], receiver_host: str, is_self: bool) -> List[float]:
        """-> list of delays (ms), one per copy delivered; [] = dropped."""
        if self.drop_index is not None and tx_index == self.drop_index:
            if self.drop_receiver is None or self.drop_receiver == receiver_host:
                return []
        if self.fixed_unicast_ms is not None and not self.current_is_multicast:
            return [self.fixed_unicast_ms]
        if self.fixed_multicast_ms is not None and self.current_is_multicast:
            return [self.fixed_multicast_ms]
        if is_self and self.self_delay_ms is not None:
            d = self.self_delay_ms
        else:
            d = self.rng.uniform(0.0, self.max_delay_ms) if self.max_delay_ms > 0 else 0.0
        out = [d]
        if self.dup_p > 0 and self.rng.random() < self.dup_p:
            out.append(d)  # link-layer duplicate: queued right behind the original in the socket FIFO
        return out


class Net:
    def __init__(self, loop_clock: VClock, policy: Optional[Policy] = None):
        self.clock = loop_clock
        self.loop: Optional[VLoop] = None
        self.hosts: List[SimHost] = []
        self.endpoints: List[Endpoint] = []
        self.policy = policy or Policy()
        self.trace: List[Dict[str, Any]] = []        # every datagram put on the wire by a library socket
        self.on_transmit: Optional[Callable[[Dict[str, Any]], None]] = None
        self.dead_sends: List[Dict[str, Any]] = []   # send attempts on a dead transport
        self.deliveries: List[Dict[str, Any]] = []   # every datagram_received call made
        self.escapes: List[Dict[str, Any]] = []      # exceptions that reached the event loop
        self.pending_host: Optional[SimHost] = None
        self.tx_count = 0
        self.on_deliver: Optional[Callable[[Dict[str, Any]], None]] = None
        self.after_deliver: Optional[Callable[[Dict[str, Any]], None]] = None
        self.duplicate_all = False    # C16: re-deliver every datagram immediately on the same socket
        self.dup_hook: Optional[Callable[[str], None]] = None
        self.duplicate_filter: Optional[Callable[[bytes], bool]] = None   # which datagrams get the immediate second delivery
        self.current_delivery: Optional[Dict[str, Any]] = None   # set while a datagram is being processed by a protocol

    # -- topology
    def add_host(self, name: str, ip4: Optional[str], ip6: Optional[str] = None, layout: str = "single",
                 ip6b: Optional[str] = None, link: int = 0) -> SimHost:
        h = SimHost(self, name, ip4, ip6, layout, ip6b, link)
        self.hosts.append(h)
        return h

    def endpoint(self, ip: str, port: int) -> Endpoint:
        e = Endpoint(self, ip, port)
        self.endpoints.append(e)
        return e

    # -- transmission from library sockets
    def transmit(self, sock: FakeSocket, data: bytes, addr: Any) -> None:
        host = sock.host
        dst_ip, dst_port = addr[0], addr[1]
        if dst_ip.startswith("::ffff:") and "." in dst_ip:
            dst_ip = dst_ip[7:]          # IPv4-mapped destination on a dual-stack socket goes out as IPv4
        v6 = ":" in dst_ip
        src = (host.src_ip_for(sock, v6), PORT)
        idx = self.tx_count
        self.tx_count += 1
        multicast = dst_ip in (MDNS4, MDNS6)
        ctx = self.current_delivery
        # the link a multicast datagram leaves by: the socket's interface - unless the destination carries a scope id, which
        # takes precedence over the socket's multicast interface the way it does in the kernel (a scope id that names none of
        # the host's interfaces: the datagram goes nowhere)
        egress: Optional[int] = sock.link
        dst_scope = addr[3] if (v6 and len(addr) >= 4) else 0
        if multicast and dst_scope:
            by_scope = {s.scope: s.link for s in host.all_sockets() if s.scope}
            egress = by_scope.get(dst_scope)
        entry = {"ctx": None if ctx is None else dict(ctx), "i": idx, "t": self.clock.ms(), "host": host.name, "sock": sock.role, "sock_ip": sock.ip, "fd": sock.fileno(),
                 "src": src, "dst": (dst_ip, dst_port), "data": data, "mcast": multicast, "closing": bool(sock.transport and sock.transport.closing),
                 "dst_scope": dst_scope, "sock_scope": sock.scope, "egress": egress}
        self.trace.append(entry)
        if self.on_transmit is not None:
            self.on_transmit(entry)          # observation hook (e.g. snapshot the sender's cache at the send instant)
        if host.partitioned:
            return
        self.policy.current_is_multicast = multicast
        if multicast:
            if dst_port != PORT:
                return
            for h in self.hosts:
                if h.partitioned or egress not in h.links:
                    continue
                for ls in h.listen:
                    if ls.closed or ls.transport is None:
                        continue
                    fam_ok = (ls.family == socket.AF_INET6) == v6 or getattr(ls, "dual", False)
                    if not fam_ok:
                        continue
                    for d in self.policy.plan(idx, host, h.name, h is host):
                        self._schedule(ls, data, src, v6, d, idx, via_link=egress or 0)
            for e in self.endpoints:
                if e.port == PORT and ((":" in e.ip) == v6):
                    e.received.append({"t": self.clock.ms(), "src": src, "data": data, "mcast": True, "i": idx})
        else:
            delivered = False
            for h in self.hosts:
                if h.partitioned or dst_port != PORT:
                    continue
                if dst_ip not in (h.ip4, h.ip6, h.ip6b):
                    continue
                target = None
                for rs in h.respond:   # most specific binding wins
                    if rs.ip == dst_ip and not rs.closed:
                        target = rs
                if target is None:
                    for ls in h.listen:
                        if not ls.closed:
                            target = ls
                if target is not None and target.transport is not None:
                    for d in self.policy.plan(idx, host, h.name, h is host):
                        self._schedule(target, data, src, v6, d, idx)
                    delivered = True
            if not delivered:
                for e in self.endpoints:
                    if e.ip == dst_ip and e.port == dst_port:
                        e.received.append({"t": self.clock.ms(), "src": src, "data": data, "mcast": False, "i": idx,
                                           "via_fd": sock.fileno(), "via_ip": sock.ip, "via_role": sock.role})

    def log_dead_send(self, sock: FakeSocket, data: bytes, addr: Any) -> None:
        self.dead_sends.append({"t": self.clock.ms(), "host": sock.host.name, "dst": addr, "data": data})

    # -- delivery
    def _schedule(self, sock: FakeSocket, data: bytes, src: Tuple, v6: bool, delay_ms: float, tx_index: int = -1, via_link: int = 0) -> None:
        assert self.loop is not None
        addr = self._addr_for(sock, src, v6)
        if len(addr) == 4 and v6 and not sock.scope and sock.host.ip6b and via_link == 1:
            addr = (addr[0], addr[1], 0, 3)      # heard on the second interface of a multi-homed host
        self.loop.call_at(self.clock.t + delay_ms / 1000.0, self._deliver, sock, data, addr, tx_index)

    @staticmethod
    def _addr_for(sock: FakeSocket, src: Tuple, v6: bool) -> Tuple:
        """The source address as recvfrom() on that socket reports it (dual-stack sockets map IPv4 peers)."""
        if sock.family == socket.AF_INET6:
            if v6:
                return (src[0], src[1], 0, sock.scope or 2)
            return ("::ffff:" + src[0], src[1], 0, 0)
        return (src[0], src[1])

    def _deliver(self, sock: FakeSocket, data: bytes, addr: Tuple, tx_index: int) -> None:
        if sock.closed or sock.transport is None or sock.transport.dead:
            return
        rec = {"t": self.clock.ms(), "host": sock.host.name, "sock": sock.role, "fd": sock.fileno(), "src": addr, "data": data, "tx": tx_index}
        self.deliveries.append(rec)
        if self.on_deliver is not None:
            self.on_deliver(rec)
        proto = sock.protocol
        if self.duplicate_all and (self.duplicate_filter is None or self.duplicate_filter(data)):
            # the copy is processed in the same loop callback, exactly as two datagrams sitting in the
            # socket buffer are drained by consecutive recvfrom calls of one _read_ready
            self.current_delivery = {"copy": False, "data": data, "host": sock.host.name}
            try:
                proto.datagram_received(data, addr)
            finally:
                self.current_delivery = {"copy": True, "data": data, "host": sock.host.name}
                if self.dup_hook:
                    self.dup_hook("begin")
                try:
                    proto.datagram_received(data, addr)
                finally:
                    self.current_delivery = None
                    if self.dup_hook:
                        self.dup_hook("end")
            return
        self.current_delivery = {"copy": False, "data": data, "host": sock.host.name}
        try:
            proto.datagram_received(data, addr)
        finally:
            self.current_delivery = None
            if self.after_deliver is not None:
                self.after_deliver(rec)

    def inject(self, host: SimHost, data: bytes, src: Tuple[str, int], delay_ms: float = 0.0, sock: Optional[FakeSocket] = None,
               multicast: bool = True) -> None:
        """Deliver crafted bytes to a host as if sent by `src`."""
        v6 = ":" in src[0]
        if sock is None:
            if multicast:
                sock = host.listen[0]
            else:
                cands = [s for s in host.respond if (s.family == socket.AF_INET6) == v6] or host.listen
                sock = cands[0]
        self._schedule(sock, data, src, v6, delay_ms)

    def inject_now(self, host: SimHost, data: bytes, src: Tuple[str, int], sock: Optional[FakeSocket] = None, multicast: bool = True) -> None:
        v6 = ":" in src[0]
        if sock is None:
            if multicast:
                sock = host.listen[0]
            else:
                cands = [s for s in host.respond if (s.family == socket.AF_INET6) == v6] or host.listen
                sock = cands[0]
        self._deliver(sock, data, self._addr_for(sock, src, v6), -1)


# ---------------------------------------------------------------------------------------


class Sim:
    """Owns clock, loop, net and the patches.  Use as:  with Sim(seed) as sim: sim.run(main(sim))"""

    def __init__(self, lib_seed: int = 0, start: float = 100.0, policy: Optional[Policy] = None):
        self.clock = VClock(start)
        self.net = Net(self.clock, policy)
        self.loop = VLoop(self.clock, self.net)
        self.net.loop = self.loop
        self.lib_seed = lib_seed
        self._saved: List[Tuple[Any, str, Any]] = []
        self.loop.set_exception_handler(self._on_loop_exception)
        self.debug_exceptions = False

    def _on_loop_exception(self, loop: Any, context: Dict[str, Any]) -> None:
        exc = context.get("exception")
        import traceback
        tbs = "".join(traceback.format_exception(type(exc), exc, exc.__traceback__)) if exc is not None else ""
        if len(tbs) > 1700:
            tbs = tbs[:900] + "\n  [...]\n" + tbs[-800:]      # where it started and where it was raised
        self.net.escapes.append({"t": self.clock.ms(), "where": "loop", "message": context.get("message"), "exc": repr(exc),
                                 "exc_type": type(exc).__name__ if exc is not None else None, "tb": tbs})

    def __enter__(self) -> "Sim":
        import zeroconf._core as core
        import zeroconf._utils.time as ztime
        self._patch(ztime, "time", _TimeShim(self.clock, ztime.time if not isinstance(ztime.time, _TimeShim) else ztime.time._real))
        self._patch(core, "create_sockets", self._create_sockets)
        random.seed(self.lib_seed)
        asyncio.set_event_loop(self.loop)
        return self

    def _patch(self, obj: Any, name: str, value: Any) -> None:
        self._saved.append((obj, name, getattr(obj, name)))
        setattr(obj, name, value)

    def __exit__(self, *exc: Any) -> None:
        try:
            # cancel whatever is left so nothing leaks into the next simulation
            pending = [t for t in asyncio.all_tasks(self.loop) if not t.done()]
            for t in pending:
                t.cancel()
            if pending:
                try:
                    self.loop.run_until_complete(asyncio.gather(*pending, return_exceptions=True))
                except BaseException:  # noqa
                    pass
        finally:
            for obj, name, val in reversed(self._saved):
                setattr(obj, name, val)
            self._saved.clear()
            asyncio.set_event_loop(None)
            try:
                self.loop.close()
            except Exception:  # noqa
                pass

    def _create_sockets(self, interfaces: Any = None, unicast: bool = False, ip_version: Any = None, apple_p2p: bool = False):
        host = self.net.pending_host
        if host is None:
            raise RuntimeError("Sim: no pending host for create_sockets")
        self.net.pending_host = None
        return host.make_sockets()

    def run(self, coro: Any) -> Any:
        return self.loop.run_until_complete(coro)

    async def start_host(self, host: SimHost) -> Any:
        """Create a real AsyncZeroconf bound to the host's fake sockets and wait until it is running."""
        from zeroconf import InterfaceChoice, IPVersion
        from zeroconf.asyncio import AsyncZeroconf
        self.net.pending_host = host
        ipv = IPVersion.All if (host.ip4 and host.ip6) else (IPVersion.V6Only if host.ip6 else IPVersion.V4Only)
        azc = AsyncZeroconf(interfaces=InterfaceChoice.Default, ip_version=ipv)
        host.azc = azc
        host.zc = azc.zeroconf
        await azc.zeroconf.async_wait_for_start()
        return azc

    def now_ms(self) -> float:
        return self.clock.ms()

    async def sleep_ms(self, ms: float) -> None:
        await asyncio.sleep(ms / 1000.0)

    async def sleep_until_ms(self, t_ms: float) -> None:
        """Wake up at exactly t_ms/1000 on the virtual clock (no accumulation of float error from relative sleeps)."""
        when = t_ms / 1000.0
        if when <= self.clock.t:
            return
        fut = self.loop.create_future()
        handle = self.loop.call_at(when, lambda: fut.done() or fut.set_result(None))
        try:
            await fut
        finally:
            handle.cancel()


# ---------------------------------------------------------------------------------------
# real-time rig for the threaded (sync) API: Zeroconf() with its own loop thread, ServiceBrowser threads


class RealClock:
    @property
    def t(self) -> float:
        import time
        return time.monotonic()

    def ms(self) -> float:
        import time
        return time.monotonic() * 1000.0


class RealTimeRig:
    """with RealTimeRig() as rig:  zc = Zeroconf()  -> the instance runs its real loop thread on fake sockets of rig.host.
    Time is wall-clock; use only for a handful of functional runs (verdicts from timeouts here are INCONCLUSIVE)."""

    def __init__(self, ip4: str = "10.0.0.1") -> None:
        self.clock = RealClock()
        self.net = Net(self.clock)  # type: ignore[arg-type]
        self.host = self.net.add_host("H", ip4)
        self._saved: Any = None
        self._old_policy: Any = None

    def __enter__(self) -> "RealTimeRig":
        import zeroconf._core as core
        rig = self

        class RLoop(asyncio.SelectorEventLoop):
            async def create_datagram_endpoint(self, protocol_factory, local_addr=None, remote_addr=None, *, sock=None, **kw):
                protocol = protocol_factory()
                transport = FakeTransport(self, sock, protocol, rig.net)  # type: ignore[arg-type]
                sock.transport = transport
                sock.protocol = protocol
                protocol.connection_made(transport)
                return transport, protocol

        class Policy(asyncio.DefaultEventLoopPolicy):
            def new_event_loop(self):
                loop = RLoop()
                loop.vclock = rig.clock  # type: ignore[attr-defined]
                rig.net.loop = loop      # type: ignore[assignment]

                def handler(l: Any, ctx: Dict[str, Any]) -> None:
                    exc = ctx.get("exception")
                    rig.net.escapes.append({"message": ctx.get("message"), "exc": repr(exc), "exc_type": type(exc).__name__ if exc is not None else None})
                loop.set_exception_handler(handler)
                return loop

        self._saved = core.create_sockets
        core.create_sockets = lambda *a, **k: rig.host.make_sockets()
        self._old_policy = asyncio.get_event_loop_policy()
        asyncio.set_event_loop_policy(Policy())
        return self

    def inject(self, zc: Any, data: bytes, src: Tuple[str, int] = ("10.0.0.9", 5353)) -> None:
        zc.loop.call_soon_threadsafe(self.net.inject_now, self.host, data, src)

    def __exit__(self, *exc: Any) -> None:
        import zeroconf._core as core
        core.create_sockets = self._saved
        asyncio.set_event_loop_policy(self._old_policy)
