"""Shared plumbing: repo import guard, result accumulation, seeds."""
from __future__ import annotations

import hashlib
import json
import os
import random
import sys
import time
import traceback
from typing import Any, Callable, Dict, Iterable, List, Optional

VERIF_DIR = os.path.dirname(os.path.dirname(os.path.abspath(__file__)))
REPO = os.environ.get("VERIF_REPO", "/repo")
REPO_SRC = os.path.join(REPO, "src")
GUARD_ENV = "ZEROCONF_VERIF"


class Inconclusive(Exception):
    pass


def setup_repo_imports() -> None:
    """Make `import zeroconf` resolve to the working tree under REPO/src (pure Python)."""
    if REPO_SRC in sys.path:
        sys.path.remove(REPO_SRC)
    sys.path.insert(0, REPO_SRC)
    sys.dont_write_bytecode = True
    os.environ[GUARD_ENV] = "1"


def import_guard() -> Dict[str, str]:
    """Import every zeroconf module and verify it is the .py file of the working tree."""
    setup_repo_imports()
    import importlib
    import pkgutil

    import zeroconf  # noqa

    mods = {}
    root = os.path.realpath(os.path.join(REPO_SRC, "zeroconf"))
    for m in pkgutil.walk_packages(zeroconf.__path__, "zeroconf."):
        mod = importlib.import_module(m.name)
        f = os.path.realpath(getattr(mod, "__file__", "") or "")
        if not f.startswith(root + os.sep) or not f.endswith(".py"):
            raise Inconclusive("module %s resolved to %r, not the working tree source" % (m.name, f))
        mods[m.name] = f
    f = os.path.realpath(zeroconf.__file__)
    if not f.startswith(root + os.sep):
        raise Inconclusive("zeroconf resolved to %r" % f)
    return mods


def derive_seed(*parts: Any) -> int:
    h = hashlib.sha256(("|".join(str(p) for p in parts)).encode()).digest()
    return int.from_bytes(h[:8], "big")


def rng_for(*parts: Any) -> random.Random:
    return random.Random(derive_seed(*parts))


def jsonable(x: Any, depth: int = 0) -> Any:
    if depth > 12:
        return repr(x)
    if isinstance(x, (str, int, float, bool)) or x is None:
        return x
    if isinstance(x, (bytes, bytearray)):
        return {"hex": bytes(x).hex()}
    if isinstance(x, dict):
        return {str(k): jsonable(v, depth + 1) for k, v in x.items()}
    if isinstance(x, (list, tuple, set, frozenset)):
        seq = list(x)
        if isinstance(x, (set, frozenset)):
            try:
                seq = sorted(seq)
            except TypeError:
                seq = sorted(seq, key=repr)
        return [jsonable(v, depth + 1) for v in seq]
    return repr(x)


class Result:
    """Accumulates what a shard observed.  Merged by the parent."""

    MAX_SAMPLES = 4
    MAX_VIOLATIONS = 40

    def __init__(self) -> None:
        self.evaluations = 0
        self.monitors: Dict[str, int] = {}
        self.classes: Dict[str, int] = {}
        self.samples: List[Any] = []
        self.violations: List[Dict[str, Any]] = []
        self.violation_count = 0
        self.observations: Dict[str, int] = {}
        self.extra: Dict[str, Any] = {}
        self.inconclusive: List[str] = []

    def mon(self, name: str, n: int = 1) -> None:
        self.monitors[name] = self.monitors.get(name, 0) + n

    def cls(self, *key: Any) -> None:
        k = "/".join(str(p) for p in key)
        self.classes[k] = self.classes.get(k, 0) + 1

    def obs(self, key: str, n: int = 1) -> None:
        self.observations[key] = self.observations.get(key, 0) + n

    def sample(self, s: Any) -> None:
        if len(self.samples) < self.MAX_SAMPLES:
            self.samples.append(jsonable(s))

    def violation(self, monitor: str, kind: str, detail: str, sig: Optional[Dict[str, Any]] = None,
                  replay: Optional[Dict[str, Any]] = None) -> None:
        self.violation_count += 1
        s = {"monitor": monitor, "kind": kind}
        s.update(sig or {})
        # keep the first few of each (monitor, kind) so one noisy mechanism cannot hide another
        same = sum(1 for v in self.violations if v["sig"].get("monitor") == monitor and v["sig"].get("kind") == kind)
        if same < 3 and len(self.violations) < self.MAX_VIOLATIONS:
            self.violations.append({"sig": jsonable(s), "detail": detail[:2000], "replay": jsonable(replay or {})})

    def to_json(self) -> Dict[str, Any]:
        return {
            "evaluations": self.evaluations,
            "monitors": self.monitors,
            "classes": self.classes,
            "samples": self.samples,
            "violations": self.violations,
            "violation_count": self.violation_count,
            "observations": self.observations,
            "extra": jsonable(self.extra),
            "inconclusive": self.inconclusive,
        }


def merge_results(parts: Iterable[Dict[str, Any]]) -> Dict[str, Any]:
    out: Dict[str, Any] = {
        "evaluations": 0, "monitors": {}, "classes": {}, "samples": [], "violations": [],
        "violation_count": 0, "observations": {}, "extra": {}, "inconclusive": [],
    }
    for p in parts:
        out["evaluations"] += p.get("evaluations", 0)
        for key in ("monitors", "classes", "observations"):
            for k, v in p.get(key, {}).items():
                out[key][k] = out[key].get(k, 0) + v
        for s in p.get("samples", []):
            if len(out["samples"]) < 6:
                out["samples"].append(s)
        out["violations"].extend(p.get("violations", []))
        out["violation_count"] += p.get("violation_count", 0)
        out["inconclusive"].extend(p.get("inconclusive", []))
        for k, v in p.get("extra", {}).items():
            if isinstance(v, (int, float)) and not isinstance(v, bool):
                if k.startswith("max_"):
                    out["extra"][k] = max(out["extra"].get(k, v), v)
                elif k.startswith("const_"):
                    out["extra"][k] = v
                else:
                    out["extra"][k] = out["extra"].get(k, 0) + v
            elif isinstance(v, list):
                out["extra"].setdefault(k, [])
                if len(out["extra"][k]) < 50:
                    out["extra"][k].extend(v[: 50 - len(out["extra"][k])])
            elif isinstance(v, dict):
                d = out["extra"].setdefault(k, {})
                for kk, vv in v.items():
                    if isinstance(vv, (int, float)):
                        d[kk] = d.get(kk, 0) + vv
                    else:
                        d.setdefault(kk, vv)
            else:
                out["extra"].setdefault(k, v)
    return out


def tb() -> str:
    return traceback.format_exc(limit=12)


class Stopwatch:
    def __init__(self, budget_s: float):
        self.t0 = time.monotonic()
        self.budget = budget_s

    def left(self) -> float:
        return self.budget - (time.monotonic() - self.t0)

    def expired(self) -> bool:
        return self.left() <= 0
