"""Plain-Python reference models used as oracles (no zeroconf imports)."""
from __future__ import annotations

from typing import Any, Dict, List, Optional, Sequence, Set, Tuple

T_A, T_PTR, T_TXT, T_AAAA, T_SRV, T_NSEC, T_ANY = 1, 12, 16, 28, 33, 47, 255
ENUM_NAME = "_services._dns-sd._udp.local."


class Svc:
    """A registered service as plain data."""

    def __init__(self, type_: str, name: str, server: str, port: int, text: bytes, addrs4: Sequence[bytes], addrs6: Sequence[bytes],
                 host_ttl: int = 120, other_ttl: int = 4500, priority: int = 0, weight: int = 0):
        self.type, self.name, self.server, self.port, self.text = type_, name, server, port, text
        self.addrs4, self.addrs6 = list(addrs4), list(addrs6)
        self.host_ttl, self.other_ttl, self.priority, self.weight = host_ttl, other_ttl, priority, weight

    def key(self) -> str:
        return self.name.lower()

    # canonical record identities: (kind, owner_lower, rdata)
    def ptr(self) -> Tuple:
        return ("PTR", self.type.lower(), (self.name.lower(),))

    def srv(self) -> Tuple:
        return ("SRV", self.name.lower(), (self.priority, self.weight, self.port, self.server.lower()))

    def txt(self) -> Tuple:
        return ("TXT", self.name.lower(), (self.text,))

    def addr_records(self) -> List[Tuple]:
        return [("A", self.server.lower(), (a,)) for a in self.addrs4] + [("AAAA", self.server.lower(), (a,)) for a in self.addrs6]

    def missing_types(self) -> List[int]:
        m = []
        if not self.addrs4:
            m.append(T_A)
        if not self.addrs6:
            m.append(T_AAAA)
        return sorted(m)

    def nsec(self) -> Optional[Tuple]:
        m = self.missing_types()
        if not m:
            return None
        # owner is reported by service (the library names it after the instance; a host-named NSEC is equally acceptable)
        return ("NSEC", self.key(), (tuple(m),))

    def addr_and_nsec(self) -> Set[Tuple]:
        s = set(self.addr_records())
        n = self.nsec()
        if n:
            s.add(n)
        return s

    def all_records(self) -> Dict[Tuple, int]:
        out = {self.ptr(): self.other_ttl, self.srv(): self.host_ttl, self.txt(): self.other_ttl}
        for r in self.addr_and_nsec():
            out[r] = self.host_ttl
        return out

    def ttl_of(self, ident: Tuple) -> int:
        return self.other_ttl if ident[0] in ("PTR", "TXT") else self.host_ttl

    def brief(self) -> Dict[str, Any]:
        return {"type": self.type, "name": self.name, "server": self.server, "port": self.port, "v4": len(self.addrs4), "v6": len(self.addrs6),
                "host_ttl": self.host_ttl, "other_ttl": self.other_ttl}


class ResponderModel:
    def __init__(self) -> None:
        self.services: Dict[str, Svc] = {}

    def register(self, s: Svc) -> None:
        self.services[s.key()] = s

    def unregister(self, name: str) -> None:
        self.services.pop(name.lower(), None)

    def by_type(self, lname: str) -> List[Svc]:
        return [s for s in self.services.values() if s.type.lower() == lname]

    def by_server(self, lname: str) -> List[Svc]:
        return [s for s in self.services.values() if s.server.lower() == lname]

    def types(self) -> Set[str]:
        return {s.type.lower() for s in self.services.values()}

    def expected(self, questions: Sequence[Tuple[str, int]], known: Dict[Tuple, int]) -> Tuple[Dict[Tuple, Set[int]], Dict[Tuple, Set[Tuple]], bool]:
        """questions: [(name, qtype)] class IN.  known: identity -> ttl listed by the querier.
        Returns (answers identity->ttl, allowed additionals per answer, exact) where exact is False when the query touches
        the parts outside the completeness claim (ANY on a host name)."""
        answers: Dict[Tuple, Set[int]] = {}   # identity -> TTLs it may carry (several when services share a host record)
        allowed: Dict[Tuple, Set[Tuple]] = {}
        exact = True

        def suppressed(ident: Tuple, ttl: int) -> bool:
            k = known.get(ident)
            return k is not None and k > ttl / 2

        def put(ident: Tuple, ttl: int, adds: Set[Tuple]) -> None:
            answers.setdefault(ident, set()).add(ttl)
            allowed.setdefault(ident, set()).update(adds)

        for name, qtype in questions:
            lname = name.lower()
            if qtype == T_PTR and lname == ENUM_NAME:
                for t in self.types():
                    ident = ("PTR", ENUM_NAME, (t,))
                    if not suppressed(ident, 4500):
                        put(ident, 4500, set())
                continue
            if qtype in (T_PTR, T_ANY):
                for s in self.by_type(lname):
                    if not suppressed(s.ptr(), s.other_ttl):
                        put(s.ptr(), s.other_ttl, {s.srv(), s.txt()} | s.addr_and_nsec())
            if qtype in (T_A, T_AAAA):
                kind = "A" if qtype == T_A else "AAAA"
                for s in self.by_server(lname):
                    mine = [r for r in s.addr_records() if r[0] == kind]
                    others = {r for r in s.addr_records() if r[0] != kind}
                    live = [r for r in mine if not suppressed(r, s.host_ttl)]
                    if live:
                        extra = set(others)
                        if s.nsec():
                            extra.add(s.nsec())
                        for r in live:
                            put(r, s.host_ttl, extra)
                    elif not mine and s.nsec():
                        put(s.nsec(), s.host_ttl, set())
            if qtype == T_ANY and self.by_server(lname):
                exact = False
            if qtype in (T_SRV, T_TXT, T_ANY):
                s = self.services.get(lname)
                if s is not None:
                    if qtype in (T_SRV, T_ANY) and not suppressed(s.srv(), s.host_ttl):
                        put(s.srv(), s.host_ttl, s.addr_and_nsec())
                    if qtype in (T_TXT, T_ANY) and not suppressed(s.txt(), s.other_ttl):
                        put(s.txt(), s.other_ttl, set())
        return answers, allowed, exact

    def owner_service_of(self, ident: Tuple) -> List[Svc]:
        """Services a record identity belongs to (for soundness checks)."""
        out = []
        for s in self.services.values():
            if ident in s.all_records():
                out.append(s)
        return out

    def all_idents(self) -> Dict[Tuple, Set[int]]:
        out: Dict[Tuple, Set[int]] = {}
        for s in self.services.values():
            for ident, ttl in s.all_records().items():
                out.setdefault(ident, set()).add(ttl)
        for t in self.types():
            out.setdefault(("PTR", ENUM_NAME, (t,)), set()).add(4500)
        return out
