"""Independent RFC 1035 / RFC 6762 wire codec used only as an oracle.

Written from the RFCs; shares no code with zeroconf._protocol.  Nothing in this
module imports zeroconf.

parse(data, strict=True)  -> Msg           (raises Reject on anything malformed)
build(msg_spec, compress=...) -> bytes     (independent encoder)
"""
from __future__ import annotations

import struct
from typing import Any, Dict, List, Optional, Sequence, Tuple

T_A, T_CNAME, T_PTR, T_HINFO, T_TXT, T_AAAA, T_SRV, T_NSEC, T_ANY = 1, 5, 12, 13, 16, 28, 33, 47, 255
SUPPORTED = {T_A, T_CNAME, T_PTR, T_HINFO, T_TXT, T_AAAA, T_SRV, T_NSEC}
MAX_NAME_CHARS = 253
MAX_NAME_OCTETS = 255


class Reject(Exception):
    pass


class Name:
    """A decoded name: list of raw label byte strings."""

    __slots__ = ("labels",)

    def __init__(self, labels: Sequence[bytes]):
        self.labels = tuple(labels)

    def text(self) -> str:
        # same presentation the library uses: labels decoded utf-8/replace joined by '.', trailing dot
        return ".".join(l.decode("utf-8", "replace") for l in self.labels) + "."

    def octets(self) -> int:
        return sum(len(l) + 1 for l in self.labels) + 1

    def __repr__(self) -> str:
        return "Name(%r)" % (self.text(),)


class Q:
    __slots__ = ("name", "type", "cls")

    def __init__(self, name: Name, type_: int, cls: int):
        self.name, self.type, self.cls = name, type_, cls

    def tup(self) -> Tuple:
        return (self.name.text(), self.type, self.cls & 0x7FFF, bool(self.cls & 0x8000))

    def __repr__(self) -> str:
        return "Q%r" % (self.tup(),)


class RR:
    __slots__ = ("name", "type", "cls", "ttl", "rdata", "raw", "off")

    def __init__(self, name: Name, type_: int, cls: int, ttl: int, rdata: Any, raw: bytes, off: int = 0):
        self.name, self.type, self.cls, self.ttl, self.rdata, self.raw, self.off = (
            name, type_, cls, ttl, rdata, raw, off)

    def tup(self) -> Tuple:
        return (self.name.text(), self.type, self.cls & 0x7FFF, bool(self.cls & 0x8000), self.ttl,
                rdata_canon(self.type, self.rdata))

    def __repr__(self) -> str:
        return "RR%r" % (self.tup(),)


def rdata_canon(type_: int, rdata: Any) -> Any:
    if isinstance(rdata, Name):
        return rdata.text()
    if type_ == T_SRV and rdata is not None:
        p, w, port, target = rdata
        return (p, w, port, target.text())
    if type_ == T_NSEC and rdata is not None:
        nxt, types = rdata
        return (nxt.text(), tuple(types))
    if type_ == T_HINFO and rdata is not None:
        return tuple(rdata)
    return rdata


class Msg:
    __slots__ = ("id", "flags", "questions", "answers", "authorities", "additionals", "size")

    def __init__(self) -> None:
        self.id = 0
        self.flags = 0
        self.questions: List[Q] = []
        self.answers: List[RR] = []
        self.authorities: List[RR] = []
        self.additionals: List[RR] = []
        self.size = 0

    @property
    def records(self) -> List[RR]:
        return self.answers + self.authorities + self.additionals

    @property
    def is_response(self) -> bool:
        return bool(self.flags & 0x8000)

    @property
    def tc(self) -> bool:
        return bool(self.flags & 0x0200)

    @property
    def aa(self) -> bool:
        return bool(self.flags & 0x0400)


class _Parser:
    def __init__(self, data: bytes, strict: bool):
        self.d = data
        self.n = len(data)
        self.strict = strict
        # offsets at which a label (or the root byte) of an already-parsed name starts
        self.label_starts: set = set()

    def u8(self, off: int) -> int:
        if off >= self.n:
            raise Reject("truncated at %d" % off)
        return self.d[off]

    def u16(self, off: int) -> int:
        if off + 2 > self.n:
            raise Reject("truncated u16 at %d" % off)
        return (self.d[off] << 8) | self.d[off + 1]

    def u32(self, off: int) -> int:
        if off + 4 > self.n:
            raise Reject("truncated u32 at %d" % off)
        return struct.unpack_from(">I", self.d, off)[0]

    def name(self, off: int, limit: Optional[int] = None) -> Tuple[Name, int]:
        """Parse a possibly-compressed name starting at off.  Returns (Name, offset after it
        in the original stream).  `limit`: the in-line part must end at or before it."""
        labels: List[bytes] = []
        end: Optional[int] = None
        cur = off
        hops = 0
        new_starts: List[int] = []
        visited: set = set()
        while True:
            b = self.u8(cur)
            if b == 0:
                new_starts.append(cur)
                if end is None:
                    end = cur + 1
                break
            if b < 0x40:
                if cur + 1 + b > self.n:
                    raise Reject("label overruns packet at %d" % cur)
                new_starts.append(cur)
                labels.append(self.d[cur + 1:cur + 1 + b])
                cur += 1 + b
                continue
            if b < 0xC0:
                raise Reject("reserved label type 0x%02x at %d" % (b, cur))
            ptr = ((b & 0x3F) << 8) | self.u8(cur + 1)
            if end is None:
                end = cur + 2
            if self.strict:
                if ptr >= cur:
                    raise Reject("pointer at %d not strictly backwards (%d)" % (cur, ptr))
                if ptr not in self.label_starts:
                    raise Reject("pointer at %d targets %d which is not a known label start" % (cur, ptr))
            else:
                if ptr >= self.n:
                    raise Reject("pointer beyond packet")
            hops += 1
            if hops > 128:
                raise Reject("too many pointer hops")
            if ptr in visited:
                raise Reject("pointer loop")
            visited.add(ptr)
            cur = ptr
        if limit is not None and end > limit:
            raise Reject("name overruns rdata")
        nm = Name(labels)
        if self.strict:
            if nm.octets() > MAX_NAME_OCTETS:
                raise Reject("name longer than 255 octets")
            if len(nm.text()) > MAX_NAME_CHARS:
                raise Reject("name longer than 253 characters")
        self.label_starts.update(new_starts)
        return nm, end

    def rdata(self, type_: int, off: int, rdlen: int) -> Any:
        end = off + rdlen
        if end > self.n:
            raise Reject("rdata overruns packet")
        raw = self.d[off:end]
        if type_ == T_A:
            if rdlen != 4:
                raise Reject("A rdlength %d" % rdlen)
            return raw
        if type_ == T_AAAA:
            if rdlen != 16:
                raise Reject("AAAA rdlength %d" % rdlen)
            return raw
        if type_ in (T_PTR, T_CNAME):
            nm, e = self.name(off, end)
            if e != end:
                raise Reject("PTR rdata not consumed exactly")
            return nm
        if type_ == T_TXT:
            return raw
        if type_ == T_SRV:
            if rdlen < 7:
                raise Reject("SRV too short")
            p, w, port = self.u16(off), self.u16(off + 2), self.u16(off + 4)
            nm, e = self.name(off + 6, end)
            if e != end:
                raise Reject("SRV rdata not consumed exactly")
            return (p, w, port, nm)
        if type_ == T_HINFO:
            cur = off
            out = []
            for _ in range(2):
                if cur >= end:
                    raise Reject("HINFO truncated")
                ln = self.d[cur]
                if cur + 1 + ln > end:
                    raise Reject("HINFO string overruns rdata")
                out.append(self.d[cur + 1:cur + 1 + ln])
                cur += 1 + ln
            if cur != end:
                raise Reject("HINFO rdata not consumed exactly")
            return tuple(out)
        if type_ == T_NSEC:
            nm, cur = self.name(off, end)
            types: List[int] = []
            last_window = -1
            while cur < end:
                if cur + 2 > end:
                    raise Reject("NSEC window header truncated")
                window, blen = self.d[cur], self.d[cur + 1]
                if blen < 1 or blen > 32:
                    raise Reject("NSEC bitmap length %d" % blen)
                if window <= last_window:
                    raise Reject("NSEC windows not ascending")
                last_window = window
                if cur + 2 + blen > end:
                    raise Reject("NSEC bitmap overruns rdata")
                for i in range(blen):
                    byte = self.d[cur + 2 + i]
                    for bit in range(8):
                        if byte & (0x80 >> bit):
                            types.append(window * 256 + i * 8 + bit)
                cur += 2 + blen
            return (nm, types)
        return raw  # unsupported type: opaque

    def parse(self) -> Msg:
        m = Msg()
        if self.n < 12:
            raise Reject("short header")
        m.id = self.u16(0)
        m.flags = self.u16(2)
        qd, an, ns, ar = self.u16(4), self.u16(6), self.u16(8), self.u16(10)
        off = 12
        for _ in range(qd):
            nm, off = self.name(off)
            t, c = self.u16(off), self.u16(off + 2)
            off += 4
            m.questions.append(Q(nm, t, c))
        for count, dest in ((an, m.answers), (ns, m.authorities), (ar, m.additionals)):
            for _ in range(count):
                start = off
                nm, off = self.name(off)
                t, c, ttl, rdlen = self.u16(off), self.u16(off + 2), self.u32(off + 4), self.u16(off + 8)
                off += 10
                rd = self.rdata(t, off, rdlen)
                raw = self.d[off:off + rdlen]
                off += rdlen
                dest.append(RR(nm, t, c, ttl, rd, raw, start))
        if self.strict and off != self.n:
            raise Reject("trailing bytes (%d of %d consumed)" % (off, self.n))
        m.size = off
        return m


def parse(data: bytes, strict: bool = True) -> Msg:
    return _Parser(bytes(data), strict).parse()


def try_parse(data: bytes, strict: bool = True) -> Tuple[Optional[Msg], Optional[str]]:
    try:
        return parse(data, strict), None
    except Reject as e:
        return None, str(e)


def questions_only(data: bytes) -> Optional[List[Q]]:
    """Leniently parse just the header and the question section (None if even that fails)."""
    try:
        p = _Parser(data, False)
        qd = p.u16(4)
        off = 12
        out = []
        for _ in range(qd):
            n, off = p.name(off)
            out.append(Q(n, p.u16(off), p.u16(off + 2)))
            off += 4
        return out
    except Reject:
        return None


def header_counts(data: bytes) -> Tuple[int, int, int, int, int, int]:
    return struct.unpack_from(">HHHHHH", data, 0)


# ---------------------------------------------------------------------------------------
# independent encoder


def split_name(text: str) -> List[bytes]:
    """Presentation name -> labels (no escaping: '.' always separates)."""
    if text.endswith("."):
        text = text[:-1]
    if text == "":
        return []
    return [p.encode("utf-8") for p in text.split(".")]


class Builder:
    """compress: 'none' | 'full' | callable(suffix_tuple)->bool deciding whether to use a pointer."""

    def __init__(self, compress: Any = "full", sizing_only: bool = False):
        self.buf = bytearray(12)
        self.sizing_only = sizing_only
        self.compress = compress
        self.table: Dict[Tuple[bytes, ...], int] = {}
        self.counts = [0, 0, 0, 0]

    def _name(self, labels: Sequence[bytes]) -> None:
        labels = list(labels)
        for i in range(len(labels)):
            suffix = tuple(labels[i:])
            off = self.table.get(suffix)
            use = off is not None and (
                self.compress == "full" or (callable(self.compress) and self.compress(suffix)))
            if use and self.compress != "none":
                self.buf += struct.pack(">H", 0xC000 | off)
                return
            here = len(self.buf)
            if here < 0x3FFF and suffix not in self.table:
                self.table[suffix] = here
            lab = labels[i]
            if len(lab) > 63 and not self.sizing_only:
                raise ValueError("label too long")
            self.buf.append(len(lab) & 0xFF)
            self.buf += lab
        self.buf.append(0)

    def name(self, n: Any) -> None:
        if isinstance(n, str):
            self._name(split_name(n))
        elif isinstance(n, Name):
            self._name(n.labels)
        else:
            self._name(n)

    def question(self, name: Any, type_: int, cls: int) -> None:
        self.name(name)
        self.buf += struct.pack(">HH", type_, cls)
        self.counts[0] += 1

    def record(self, section: int, name: Any, type_: int, cls: int, ttl: int, rdata: Any) -> None:
        self.name(name)
        self.buf += struct.pack(">HHI", type_, cls, ttl)
        lenpos = len(self.buf)
        self.buf += b"\0\0"
        self._rdata(type_, rdata)
        struct.pack_into(">H", self.buf, lenpos, len(self.buf) - lenpos - 2)
        self.counts[section] += 1

    def _rdata(self, type_: int, rd: Any) -> None:
        if isinstance(rd, (bytes, bytearray)) and type_ not in (T_PTR, T_CNAME):
            self.buf += rd
        elif type_ in (T_PTR, T_CNAME):
            self.name(rd)
        elif type_ == T_SRV:
            p, w, port, target = rd
            self.buf += struct.pack(">HHH", p, w, port)
            self.name(target)
        elif type_ == T_HINFO:
            for s in rd:
                if isinstance(s, str):
                    s = s.encode("utf-8")
                self.buf.append(len(s))
                self.buf += s
        elif type_ == T_NSEC:
            nxt, types = rd
            self.name(nxt)
            windows: Dict[int, bytearray] = {}
            for t in sorted(types):
                w = windows.setdefault(t >> 8, bytearray(32))
                w[(t & 0xFF) >> 3] |= 0x80 >> (t & 7)
            for wnum in sorted(windows):
                bm = bytes(windows[wnum]).rstrip(b"\0")
                self.buf.append(wnum)
                self.buf.append(len(bm))
                self.buf += bm
        else:
            raise ValueError("cannot encode rdata for type %d: %r" % (type_, rd))

    def finish(self, id_: int = 0, flags: int = 0) -> bytes:
        struct.pack_into(">HHHHHH", self.buf, 0, id_, flags, *self.counts)
        return bytes(self.buf)


def build(id_: int = 0, flags: int = 0, questions: Sequence[Tuple] = (), answers: Sequence[Tuple] = (),
          authorities: Sequence[Tuple] = (), additionals: Sequence[Tuple] = (), compress: Any = "full",
          sizing_only: bool = False) -> bytes:
    """questions: (name, type, cls); records: (name, type, cls, ttl, rdata)."""
    b = Builder(compress, sizing_only)
    for q in questions:
        b.question(*q)
    for sec, recs in ((1, answers), (2, authorities), (3, additionals)):
        for r in recs:
            b.record(sec, *r)
    return b.finish(id_, flags)
