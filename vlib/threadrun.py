"""Real-time runs of the blocking (threaded) API: `Zeroconf()` with its own loop thread on fake sockets.

The asyncio API is exercised in virtual time (simnet.Sim).  The blocking wrappers - register_service, update_service,
unregister_service, get_service_info / ServiceInfo.request, add_service_listener / ServiceBrowser, close - hand work to a loop
thread and wait for it; they can only be run in real time.  `BlockingInstance` starts a real `Zeroconf()` whose loop thread
runs a SelectorEventLoop with the simulator's fake transports (nothing touches the network), and gives the calling thread

  * `inject(data, src)`  - deliver a datagram on the instance's listen socket (in the loop thread),
  * `in_loop(fn, *args)` - run a function in the loop thread and wait for its result,
  * `net.trace`          - everything the instance put on the wire, with real-time stamps in ms.

Wall-clock waits in callers are generous and a timeout there is *inconclusive*, never a violation.
"""
from __future__ import annotations

import asyncio
import concurrent.futures
import time
from typing import Any, Callable, Dict, Optional

from . import simnet


class RealClock:
    @property
    def t(self) -> float:
        return time.monotonic()

    def ms(self) -> float:
        return time.monotonic() * 1000.0


def new_rloop(net: Any, clock: Any) -> asyncio.AbstractEventLoop:
    """A real-time SelectorEventLoop whose datagram endpoints are the simulator's fake transports."""

    class RLoop(asyncio.SelectorEventLoop):
        async def create_datagram_endpoint(self, protocol_factory, local_addr=None, remote_addr=None, *, sock=None, **kw):  # type: ignore[override]
            protocol = protocol_factory()
            transport = simnet.FakeTransport(self, sock, protocol, net)  # type: ignore[arg-type]
            transport._vloop = self
            sock.transport = transport
            sock.protocol = protocol
            protocol.connection_made(transport)
            return transport, protocol

    loop = RLoop()
    loop.vclock = clock  # type: ignore[attr-defined]
    net.loop = loop      # type: ignore[assignment]
    escapes = net.escapes

    def handler(l: Any, ctx: Dict[str, Any]) -> None:
        escapes.append({"message": ctx.get("message"), "exc": repr(ctx.get("exception")), "exc_type": type(ctx.get("exception")).__name__})
    loop.set_exception_handler(handler)
    return loop


class BlockingInstance:
    def __init__(self, ip4: str = "10.0.0.1", ip6: Optional[str] = None, layout: str = "single") -> None:
        self.clock = RealClock()
        self.net = simnet.Net(self.clock)  # type: ignore[arg-type]
        self.host = self.net.add_host("H", ip4, ip6, layout=layout)
        self.zc: Any = None
        self._saved_cs: Any = None
        self._old_policy: Any = None
        self.closed = False

    def __enter__(self) -> "BlockingInstance":
        import zeroconf._core as core
        from zeroconf import Zeroconf
        net, clock = self.net, self.clock

        class Policy(asyncio.DefaultEventLoopPolicy):
            def new_event_loop(self):  # type: ignore[override]
                return new_rloop(net, clock)

        self._saved_cs = core.create_sockets
        self._old_policy = asyncio.get_event_loop_policy()
        core.create_sockets = lambda *a, **k: self.host.make_sockets()
        asyncio.set_event_loop_policy(Policy())
        try:
            self.zc = Zeroconf()
        except BaseException:
            self._restore()
            raise
        return self

    def _restore(self) -> None:
        import zeroconf._core as core
        core.create_sockets = self._saved_cs
        asyncio.set_event_loop_policy(self._old_policy)

    def __exit__(self, *exc: Any) -> None:
        try:
            if self.zc is not None and not self.closed:
                try:
                    self.zc.close()
                except Exception:  # noqa - closing is best effort here; the checks that judge close() call it themselves
                    pass
        finally:
            self._restore()

    # -- helpers for the calling (non-loop) thread
    def now_ms(self) -> float:
        return self.clock.ms()

    def inject(self, data: bytes, src: Any = ("10.0.0.9", 5353)) -> None:
        self.zc.loop.call_soon_threadsafe(self.net.inject_now, self.host, data, src)

    def in_loop(self, fn: Callable[..., Any], *args: Any, timeout: float = 20.0) -> Any:
        fut: "concurrent.futures.Future[Any]" = concurrent.futures.Future()

        def run() -> None:
            try:
                fut.set_result(fn(*args))
            except BaseException as e:  # noqa
                fut.set_exception(e)
        self.zc.loop.call_soon_threadsafe(run)
        return fut.result(timeout)

    def settle(self, ms: float = 30.0) -> None:
        """Let the loop thread run what is due now (one round trip through the loop, then a short real wait)."""
        self.in_loop(lambda: None)
        time.sleep(ms / 1000.0)
        self.in_loop(lambda: None)


class SharedLoopInstance(BlockingInstance):
    """The other way to end up calling the blocking API from a non-loop thread: the application runs its own event loop (here:
    in a thread of its own), creates the instance *inside* that loop - it then shares the loop and has no loop thread of its
    own - and later calls blocking methods such as close() from a worker thread."""

    def __enter__(self) -> "SharedLoopInstance":
        import threading
        import zeroconf._core as core
        from zeroconf import Zeroconf
        self._saved_cs = core.create_sockets
        self._old_policy = asyncio.get_event_loop_policy()
        core.create_sockets = lambda *a, **k: self.host.make_sockets()
        self.app_loop = new_rloop(self.net, self.clock)

        def run() -> None:
            asyncio.set_event_loop(self.app_loop)
            self.app_loop.run_forever()
        self.app_thread = threading.Thread(target=run, daemon=True)
        self.app_thread.start()

        async def make() -> Any:
            return Zeroconf()
        try:
            self.zc = asyncio.run_coroutine_threadsafe(make(), self.app_loop).result(20)
        except BaseException:
            self._stop_app_loop()
            self._restore()
            raise
        return self

    def _stop_app_loop(self) -> None:
        try:
            self.app_loop.call_soon_threadsafe(self.app_loop.stop)
            self.app_thread.join(10)
        except Exception:  # noqa
            pass

    def __exit__(self, *exc: Any) -> None:
        try:
            if self.zc is not None and not self.closed:
                try:
                    self.zc.close()
                except Exception:  # noqa
                    pass
        finally:
            self._stop_app_loop()
            self._restore()
