"""C01 (round trip) and C14 (size limits / accounting) monitors over real DNSOutgoing output."""
from __future__ import annotations

import random
from typing import Any, Dict, List, Optional, Sequence, Tuple

from . import gen, wire
from .common import Result, tb

MAX_ABS = 8966
MAX_TYP = 1460

FLAGS_QUERY = 0x0000
FLAGS_RESPONSE = 0x8400
FLAGS_TC = 0x0200


def lib():
    import zeroconf._dns as d
    import zeroconf._exceptions as e
    import zeroconf._protocol.incoming as i
    import zeroconf._protocol.outgoing as o
    return d, e, i, o


def to_lib(spec: Sequence, created: Optional[float] = None):
    d, _, _, _ = lib()
    k = spec[0]
    if k == "Q":
        return d.DNSQuestion(spec[1], spec[2], spec[3])
    name, cls, ttl = spec[1], spec[2], spec[3]
    c = created if created is not None else 1000.0
    if k in ("A", "AAAA"):
        return d.DNSAddress(name, gen.TYPE_OF[k], cls, ttl, spec[4], created=c)
    if k in ("PTR", "CNAME"):
        return d.DNSPointer(name, gen.TYPE_OF[k], cls, ttl, spec[4], c)
    if k == "TXT":
        return d.DNSText(name, 16, cls, ttl, spec[4], c)
    if k == "SRV":
        return d.DNSService(name, 33, cls, ttl, spec[4], spec[5], spec[6], spec[7], c)
    if k == "HINFO":
        return d.DNSHinfo(name, 13, cls, ttl, spec[4], spec[5], c)
    if k == "NSEC":
        return d.DNSNsec(name, 47, cls, ttl, spec[4], list(spec[5]), c)
    raise ValueError(k)


def spec_rdata(spec: Sequence) -> Any:
    k = spec[0]
    if k in ("A", "AAAA", "TXT"):
        return spec[4]
    if k in ("PTR", "CNAME"):
        return spec[4]
    if k == "SRV":
        return (spec[4], spec[5], spec[6], spec[7])
    if k == "HINFO":
        return (spec[4], spec[5])
    if k == "NSEC":
        return (spec[4], tuple(sorted(spec[5])))
    raise ValueError(k)


def expected_record(spec: Sequence, multicast: bool, ttl: int) -> Tuple:
    return (spec[1], gen.TYPE_OF[spec[0]], spec[2] & 0x7FFF, bool(spec[2] & 0x8000) and multicast, ttl, spec_rdata(spec))


def expected_question(spec: Sequence, multicast: bool) -> Tuple:
    return (spec[1], spec[2], spec[3] & 0x7FFF, bool(spec[3] & 0x8000) and multicast)


def lib_record_tuple(r: Any) -> Tuple:
    d, _, _, _ = lib()
    if isinstance(r, d.DNSAddress):
        rd: Any = r.address
    elif isinstance(r, d.DNSPointer):
        rd = r.alias
    elif isinstance(r, d.DNSText):
        rd = r.text
    elif isinstance(r, d.DNSService):
        rd = (r.priority, r.weight, r.port, r.server)
    elif isinstance(r, d.DNSHinfo):
        rd = (r.cpu, r.os)
    elif isinstance(r, d.DNSNsec):
        rd = (r.next_name, tuple(r.rdtypes))
    else:
        rd = ("?", repr(r))
    return (r.name, r.type, r.class_, r.unique, r.ttl, rd)


def wire_record_tuple(rr: wire.RR) -> Tuple:
    rd = rr.rdata
    if rr.type in (wire.T_PTR, wire.T_CNAME):
        rd = rd.text()
    elif rr.type == wire.T_SRV:
        rd = (rd[0], rd[1], rd[2], rd[3].text())
    elif rr.type == wire.T_HINFO:
        rd = tuple(x.decode("utf-8", "replace") for x in rd)
    elif rr.type == wire.T_NSEC:
        rd = (rd[0].text(), tuple(sorted(rd[1])))
    return (rr.name.text(), rr.type, rr.cls & 0x7FFF, bool(rr.cls & 0x8000), rr.ttl, rd)


def standalone_size(spec: Sequence) -> int:
    """Size of a datagram carrying only this entry, uncompressed owner (own encoder)."""
    if spec[0] == "Q":
        return len(wire.build(questions=[(spec[1], spec[2], spec[3] & 0xFFFF)], compress="full", sizing_only=True))
    return len(wire.build(answers=[(spec[1], gen.TYPE_OF[spec[0]], spec[2], 0, _wire_rdata(spec))], compress="full", sizing_only=True))


def _wire_rdata(spec: Sequence) -> Any:
    k = spec[0]
    if k in ("A", "AAAA", "TXT", "PTR", "CNAME"):
        return spec[4]
    if k == "SRV":
        return (spec[4], spec[5], spec[6], spec[7])
    if k == "HINFO":
        return (spec[4], spec[5])
    if k == "NSEC":
        return (spec[4], list(spec[5]))
    raise ValueError(k)


class Case:
    """One message handed to the builder."""

    def __init__(self, query: bool, multicast: bool, id_: int, questions: List[Tuple], answers: List[Tuple[Tuple, float, float]],
                 authorities: List[Tuple], additionals: List[Tuple], tag: str = ""):
        self.query, self.multicast, self.id = query, multicast, id_
        self.questions, self.answers, self.authorities, self.additionals = questions, answers, authorities, additionals
        self.tag = tag

    def to_json(self) -> Dict[str, Any]:
        return {
            "query": self.query, "multicast": self.multicast, "id": self.id, "tag": self.tag,
            "questions": [gen.spec_to_json(q) for q in self.questions],
            "answers": [[gen.spec_to_json(s), now, created] for s, now, created in self.answers],
            "authorities": [gen.spec_to_json(s) for s in self.authorities],
            "additionals": [gen.spec_to_json(s) for s in self.additionals],
        }

    @staticmethod
    def from_json(js: Dict[str, Any]) -> "Case":
        return Case(js["query"], js["multicast"], js["id"],
                    [tuple(q) for q in js["questions"]],
                    [(gen.spec_from_json(s), now, created) for s, now, created in js["answers"]],
                    [gen.spec_from_json(s) for s in js["authorities"]],
                    [gen.spec_from_json(s) for s in js["additionals"]], js.get("tag", ""))

    def brief(self) -> Dict[str, Any]:
        def b(s: Sequence) -> str:
            return "%s %s ttl=%s" % (s[0], s[1][:40], s[3]) if s[0] != "Q" else "Q %s t=%s" % (s[1][:40], s[2])
        return {"mode": ("query" if self.query else "response") + ("/mcast" if self.multicast else "/ucast id=%d" % self.id),
                "n": [len(self.questions), len(self.answers), len(self.authorities), len(self.additionals)],
                "first": [b(s) for s in (self.questions[:2] + [a[0] for a in self.answers[:2]])], "tag": self.tag}

    def all_names(self) -> List[str]:
        out = [q[1] for q in self.questions]
        for s in [a[0] for a in self.answers] + self.authorities + self.additionals:
            out.extend(gen.spec_name_fields(s))
        return out


def _created_for(spec: Sequence) -> float:
    """Creation time of a record handed to the authority / additional section: these are written with their TTL as given,
    whatever their age - so the age is varied (0, one second, a day, years)."""
    return (0.0, 1000.0, 86400000.0, 123456789012.0)[(len(spec[1]) + int(spec[3])) % 4]


def run_case(case: Case, res: Result, props: Sequence[str]) -> None:
    d, exc, inc, outm = lib()
    res.evaluations += 1
    flags = FLAGS_QUERY if case.query else FLAGS_RESPONSE
    maxlab = max([gen.max_label_bytes(n) for n in case.all_names()] or [0])
    out = outm.DNSOutgoing(flags, case.multicast, case.id)
    exp_q: List[Tuple] = []
    exp_sections: List[List[Tuple]] = [[], [], []]
    replay = {"case": case.to_json()}

    def viol(prop: str, monitor: str, kind: str, detail: str, **sig: Any) -> None:
        if prop in props:
            res.violation(monitor, kind, detail, dict(sig, max_label_bytes_bucket=("64" if maxlab == 64 else (">64" if maxlab > 64 else "<=63"))), replay)

    try:
        for q in case.questions:
            out.add_question(to_lib(q))
            exp_q.append(expected_question(q, case.multicast))
        for spec, now, created in case.answers:
            rec = to_lib(spec, created)
            out.add_answer_at_time(rec, now)
            ttl = spec[3] if now == 0 else int(rec.get_remaining_ttl(now))
            exp_sections[0].append(expected_record(spec, case.multicast, ttl))
        for spec in case.authorities:
            out.add_authorative_answer(to_lib(spec, _created_for(spec)))
            exp_sections[1].append(expected_record(spec, case.multicast, spec[3]))
        for spec in case.additionals:
            out.add_additional_answer(to_lib(spec, _created_for(spec)))
            exp_sections[2].append(expected_record(spec, case.multicast, spec[3]))
        packets = out.packets()
    except exc.NamePartTooLongException:
        res.mon("c01.accept_reject")
        if maxlab <= 63:
            # NamePartTooLongException is the rejection of a name part that is too long: a message whose labels all fit a DNS
            # label (<= 63 bytes) has nothing to be rejected for, and is owed the round trip
            res.cls("rejected-short")
            if "C01" in props:
                res.violation("c01.accept_reject", "rejected_although_all_labels_le_63", "NamePartTooLongException although the longest label has %d bytes" % maxlab,
                              {}, {"case": case.to_json()})
            else:
                res.obs("builder_rejected_although_all_labels_le_63")
        else:
            res.cls("rejected", "64" if maxlab == 64 else ">64")
        return
    except Exception as e:  # any other exception: the builder neither rejected properly nor produced output
        res.mon("c01.accept_reject")
        viol("C01", "c01.accept_reject", "builder_raised_other", "builder raised %r\n%s" % (e, tb()), exc_type=type(e).__name__)
        viol("C14", "c14.wellformed", "builder_raised_other", "builder raised %r" % (e,), exc_type=type(e).__name__)
        return
    res.mon("c01.accept_reject")

    # ---- decode with both decoders
    lib_q: List[Tuple] = []
    lib_secs: List[List[Tuple]] = [[], [], []]
    w_q: List[Tuple] = []
    w_secs: List[List[Tuple]] = [[], [], []]
    lib_ok = True
    wire_ok = True
    sizes = []
    entries_per_packet = []
    n_packets = len(packets)
    for idx, p in enumerate(packets):
        sizes.append(len(p))
        # library decoder
        try:
            m = inc.DNSIncoming(p, now=5.0)
            recs = m.answers()
            if not m.valid:
                lib_ok = False
                viol("C01", "c01.own_decoder", "own_decoder_invalid", "packet %d/%d (%d bytes) marked invalid by DNSIncoming" % (idx, n_packets, len(p)))
            else:
                lib_q.extend((q.name, q.type, q.class_, q.unique) for q in m.questions)
                counts = (m.num_answers, m.num_authorities, m.num_additionals)
                if len(recs) != sum(counts):
                    lib_ok = False
                    viol("C01", "c01.own_decoder", "own_decoder_dropped_records",
                         "packet %d: header counts %r but %d records decoded" % (idx, counts, len(recs)))
                else:
                    pos = 0
                    for si, c in enumerate(counts):
                        lib_secs[si].extend(lib_record_tuple(r) for r in recs[pos:pos + c])
                        pos += c
        except Exception as e:
            lib_ok = False
            viol("C01", "c01.own_decoder", "own_decoder_raised", "DNSIncoming raised %r" % (e,))
        # independent decoder
        wm, why = wire.try_parse(p, strict=True)
        if wm is None:
            wire_ok = False
            viol("C01", "c01.independent_decoder", "strict_parser_rejects", "packet %d/%d (%d bytes): %s" % (idx, n_packets, len(p), why))
            lm, lwhy = wire.try_parse(p, strict=False)
            if lm is None:
                viol("C14", "c14.wellformed", "corrupt_packet", "packet %d/%d (%d bytes) cannot be parsed: %s" % (idx, n_packets, len(p), lwhy))
                entries_per_packet.append(None)
                continue
            wm = lm
        w_q.extend(q.tup() for q in wm.questions)
        w_secs[0].extend(wire_record_tuple(r) for r in wm.answers)
        w_secs[1].extend(wire_record_tuple(r) for r in wm.authorities)
        w_secs[2].extend(wire_record_tuple(r) for r in wm.additionals)
        nent = len(wm.questions) + len(wm.records)
        entries_per_packet.append(nent)
        # C14 per packet
        res.mon("c14.size")
        if len(p) > MAX_ABS:
            viol("C14", "c14.size", "over_absolute_limit", "packet %d is %d bytes" % (idx, len(p)))
        elif len(p) > MAX_TYP and nent != 1:
            viol("C14", "c14.size", "over_typical_with_many_entries", "packet %d is %d bytes with %d entries" % (idx, len(p), nent))
        res.mon("c14.header")
        hdr = wire.header_counts(p)
        want_tc = case.query and idx < n_packets - 1
        if bool(hdr[1] & FLAGS_TC) != want_tc:
            viol("C14", "c14.header", "tc_flag", "packet %d/%d query=%s TC=%s expected %s" % (idx, n_packets, case.query, bool(hdr[1] & FLAGS_TC), want_tc))
        if (hdr[1] & ~FLAGS_TC) != flags:
            viol("C14", "c14.header", "flags_changed", "packet %d flags %#06x expected %#06x" % (idx, hdr[1], flags))
        want_id = 0 if case.multicast else case.id
        if hdr[0] != want_id:
            viol("C14", "c14.header", "message_id", "packet %d id %d expected %d" % (idx, hdr[0], want_id))
        if wm.size != len(p):
            viol("C14", "c14.header", "counts_vs_content", "packet %d: header counts cover %d of %d bytes" % (idx, wm.size, len(p)))
        if nent == 0 and (exp_q or any(exp_sections)):
            viol("C14", "c14.wellformed", "empty_packet", "packet %d carries no entry" % idx)

    # ---- compare sequences
    def cmp(monitor: str, prop: str, got_q: List[Tuple], got_secs: List[List[Tuple]], who: str) -> None:
        res.mon(monitor)
        if got_q != exp_q:
            viol(prop, monitor, "questions_differ", "%s: questions differ: %s" % (who, first_diff(exp_q, got_q)), section="questions",
                 diff=diff_kind(exp_q, got_q))
        for si, nm in enumerate(("answers", "authorities", "additionals")):
            if got_secs[si] != exp_sections[si]:
                viol(prop, monitor, "records_differ", "%s: %s differ: %s" % (who, nm, first_diff(exp_sections[si], got_secs[si])),
                     section=nm, diff=diff_kind(exp_sections[si], got_secs[si]))

    if lib_ok:
        cmp("c01.own_decoder", "C01", lib_q, lib_secs, "library decoder")
    if wire_ok:
        cmp("c01.independent_decoder", "C01", w_q, w_secs, "independent decoder")
    if None not in entries_per_packet:
        # accounting with the independent lenient/strict parse
        cmp("c14.accounting", "C14", w_q, w_secs, "accounting")

    over = sum(1 for s in sizes if s > MAX_TYP)
    total = len(exp_q) + sum(len(s) for s in exp_sections)
    populated = "".join("1" if x else "0" for x in (exp_q, exp_sections[0], exp_sections[1], exp_sections[2]))
    nb = "1" if n_packets == 1 else ("2" if n_packets == 2 else ("3-10" if n_packets <= 10 else ">10"))
    mode = ("q" if case.query else "r") + ("m" if case.multicast else "u")
    res.cls("msg", mode, "sections=" + populated, "packets=" + nb, "oversize=%d" % min(over, 2), case.tag or "rand",
            "lab=" + ("64" if maxlab == 64 else (">64" if maxlab > 64 else "ok")))
    if res.evaluations % 97 == 1:
        res.sample({"case": case.brief(), "packet_sizes": sizes[:12], "n_packets": n_packets, "entries": total})


def first_diff(exp: List[Tuple], got: List[Tuple]) -> str:
    if len(exp) != len(got):
        s = "expected %d entries, got %d; " % (len(exp), len(got))
    else:
        s = ""
    for i, (a, b) in enumerate(zip(exp, got)):
        if a != b:
            return s + "index %d expected %r got %r" % (i, short(a), short(b))
    if len(exp) > len(got):
        return s + "missing %r" % (short(exp[len(got)]),)
    if len(got) > len(exp):
        return s + "extra %r" % (short(got[len(exp)]),)
    return s


def short(t: Tuple) -> Tuple:
    return tuple((x[:24] if isinstance(x, (bytes, str)) else x) for x in t)


def diff_kind(exp: List[Tuple], got: List[Tuple]) -> str:
    if len(got) < len(exp):
        return "lost"
    if len(got) > len(exp):
        return "extra"
    for a, b in zip(exp, got):
        if a != b:
            for i, nm in enumerate(("name", "type", "class", "bit", "ttl", "rdata")):
                if i < len(a) and a[i] != b[i]:
                    return nm
    return "order"


# ---------------------------------------------------------------------------------------
# case generators


def fits(spec: Sequence) -> bool:
    return standalone_size(spec) <= MAX_ABS


def gen_random_case(rng: random.Random, big: bool = False) -> Case:
    pool = gen.NamePool(rng)
    query = rng.random() < 0.5
    multicast = rng.random() < 0.6
    id_ = rng.choice([0, 1, 0x1234, 65535, rng.randrange(65536)])
    shape = rng.choice(["tiny", "tiny", "small", "small", "medium", "large" if big else "medium", "allsections"])
    hi = {"tiny": 2, "small": 6, "medium": 40, "large": 300, "allsections": 12}[shape]

    def count() -> int:
        if shape == "allsections":
            return rng.randrange(1, hi)
        return rng.choice([0, 0, 1, rng.randrange(0, hi + 1)])

    questions = [gen.gen_question(rng, pool) for _ in range(count())]
    answers = []
    for _ in range(count()):
        s = gen.gen_record(rng, pool)
        if not fits(s):
            continue
        if rng.random() < 0.3 and s[3] > 0:
            created = rng.choice([1000.0, 123456.5, 5e6])
            ttl_ms = s[3] * 1000
            frac = rng.choice([0.001, 0.25, 0.5, 0.75, 0.999])
            now = created + min(ttl_ms * frac, ttl_ms - 1)
            if now <= 0 or created + ttl_ms <= now:
                now = 0.0
            answers.append((s, float(now), created))
        else:
            answers.append((s, 0.0, 1000.0))
    authorities = [s for s in (gen.gen_record(rng, pool) for _ in range(count())) if fits(s)]
    additionals = [s for s in (gen.gen_record(rng, pool) for _ in range(count())) if fits(s)]
    if not (questions or answers or authorities or additionals):
        questions = [gen.gen_question(rng, pool)]
    return Case(query, multicast, id_, questions, answers, authorities, additionals, "rand-" + shape)


def gen_oversize_case(rng: random.Random) -> Case:
    """Single entries of 1440..8950 bytes in first/middle/last position among small ones."""
    pool = gen.NamePool(rng, allow_long_labels=False)
    query = rng.random() < 0.5
    multicast = rng.random() < 0.5
    n = rng.randrange(1, 8)
    pos = rng.choice([0, n // 2, n - 1])
    recs = []
    for i in range(n):
        if i == pos:
            name = pool.get()
            target = rng.choice([1440, 1447, 1448, 1449, 1460, 1461, 3000, 8900, 8966])
            base = standalone_size(("TXT", name, 1, 0, b""))
            size = max(0, target - base + rng.choice([-2, -1, 0, 0, 0]))
            s = ("TXT", name, rng.choice([1, 0x8001]), rng.choice(gen.TTLS), gen.txt_of_size(rng, size))
            while not fits(s):
                size -= 1
                s = ("TXT", name, s[2], s[3], gen.txt_of_size(rng, size))
            recs.append(s)
        else:
            recs.append(gen.gen_record(rng, pool, rng.choice(["A", "PTR", "SRV", "TXT"]), size_hint=rng.choice([0, 10, 200])))
    questions = [gen.gen_question(rng, pool) for _ in range(rng.choice([0, 0, 1, 3]))]
    where = rng.choice(["answers", "authorities", "additionals", "split"])
    answers: List[Tuple] = []
    auth: List[Tuple] = []
    add: List[Tuple] = []
    if where == "answers":
        answers = [(s, 0.0, 1000.0) for s in recs]
    elif where == "authorities":
        auth = recs
    elif where == "additionals":
        add = recs
    else:
        for s in recs:
            rng.choice([lambda x: answers.append((x, 0.0, 1000.0)), auth.append, add.append])(s)
    return Case(query, multicast, rng.randrange(65536), questions, answers, auth, add, "oversize")


def sweep_cases(rng: random.Random, kinds: Sequence[str], pads: Sequence[int], limit: int = MAX_TYP) -> List[Case]:
    """Boundary sweeper: [question?] + pad TXT + record R (+ follower sharing names with R):
    the pad size moves the packet limit across every offset of R's encoding, exercising rollback of
    data *and* of the compression table followed by re-use of R's names in the next packet."""
    cases = []
    pool = gen.NamePool(rng, allow_long_labels=False)
    padname = "p." + rng.choice(["local.", "_tcp.local."])
    for kind in kinds:
        r = gen.gen_record(rng, pool, kind, size_hint=rng.choice([0, 7, 30]))
        follower_kind = rng.choice(["PTR", "SRV", "A", "NSEC"])
        f = list(gen.gen_record(rng, pool, follower_kind, size_hint=0))
        # make the follower reuse R's names so a stale compression entry would be dereferenced
        f[1] = r[1] if rng.random() < 0.6 else pool.variant(r[1])
        if follower_kind == "PTR":
            f[4] = gen.spec_name_fields(r)[-1]
        elif follower_kind == "SRV":
            f[7] = gen.spec_name_fields(r)[-1]
        elif follower_kind == "NSEC":
            f[4] = gen.spec_name_fields(r)[-1]
        f = tuple(f)
        query = rng.random() < 0.5
        multicast = rng.random() < 0.5
        qs = [("Q", r[1], 255, 1)] if rng.random() < 0.5 else []
        base_case = Case(query, multicast, 7, qs, [(("TXT", padname, 1, 120, b""), 0.0, 1000.0), (r, 0.0, 1000.0), (f, 0.0, 1000.0)], [], [], "sweep")
        # size with empty pad
        base = len(wire.build(questions=[(q[1], q[2], q[3]) for q in qs],
                              answers=[(padname, 16, 1, 120, b"")], compress="full"))
        rsize = standalone_size(r) - 12 + standalone_size(f) - 12
        for pad_off in pads:
            # end of pad record lands at limit - pad_off
            padsize = limit - pad_off - base
            if padsize < 0 or padsize > 8000:
                continue
            c = Case(query, multicast, 7, qs,
                     [(("TXT", padname, 1, 120, gen.txt_of_size(rng, padsize)), 0.0, 1000.0), (r, 0.0, 1000.0), (f, 0.0, 1000.0)],
                     [], [], "sweep-" + kind)
            cases.append(c)
        del base_case, rsize
    return cases
